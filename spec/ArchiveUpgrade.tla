--------------------------- MODULE ArchiveUpgrade ---------------------------
(* C41, archives: data versions as a small state machine.  An archive written     *)
(* with data version 1 (eko 0.13) or 2 (eko 0.14) is brought to the current layout  *)
(* by the patches in eko.io.v1 / eko.io.v2 when it is read.  The documented          *)
(* differences of the old layouts (what the patches undo):                           *)
(*   metadata: bases.xgrid instead of xgrid                                          *)
(*   theory:   couplings.scale + couplings.num_flavs_ref instead of couplings.ref,    *)
(*             extra keys couplings.max_num_flavs, heavy.intrinsic_flavors,           *)
(*             heavy.num_flavs_init, heavy.num_flavs_max_pdf; v1: use_fhmv instead of  *)
(*             use_fhmruvv and no matching_order                                       *)
(*   operator: mu0 instead of init (nf from heavy.num_flavs_init); v1: no              *)
(*             configs.n_integration_cores                                             *)
(* Fields an old layout cannot express are not compared (Expressible).                 *)
EXTENDS Naturals, Sequences, FiniteSets, TLC

Versions == {1, 2}
Fields == {"order", "alphas", "alphaem", "ref-scale", "ref-nf", "masses", "scheme", "ratios", "xif",
           "n3lo-variation", "use-fhmruvv", "matching-order", "init-scale", "init-nf", "mugrid", "xgrid",
           "method", "iterations", "max-order", "sv-method", "inversion", "degree", "is-log", "polarized",
           "time-like", "cores", "points", "operators", "metadata-xgrid", "metadata-origin"}
(* what the old layout could hold *)
Expressible(v) == Fields \ (IF v = 1 THEN {"matching-order", "cores"} ELSE {})
(* the patch sequence applied on read *)
PatchesFor(v) == IF v = 1 THEN <<"v1.metadata", "v1.theory", "v1.operator">>
                 ELSE <<"v2.metadata", "v2.theory", "v2.operator">>
C41_Archive(v, same) == Expressible(v) \subseteq same
Missing(v, same) == Expressible(v) \ same
=============================================================================
