----------------------------- MODULE StoreTrace -----------------------------
(* B3 for Store: histories executed on real EKO objects.  Every event carries   *)
(* the reply of the call and the projection of the implementation state after   *)
(* it.  Two grades:                                                             *)
(*  property grade   the observed replies are compared with the persistent      *)
(*                   dictionary g that the trace spec maintains from the events  *)
(*                   alone (C36/C37/C39 clauses) -> "BAD" lines = verdicts       *)
(*  conformance      the recorded pre/post projections must satisfy the Store    *)
(*                   action of the event -> "CONF" lines = diagnostics           *)
(* Implementation variables always take the recorded values, so one mismatch     *)
(* never hides the rest of a trace.                                              *)
EXTENDS Store, Json, IOUtils, TLCExt

TLog == JsonDeserialize(IOEnv.TRACE_FILE)     \* sequence of traces (sequences of events)
VARIABLES tid, l, sha
tvars == <<vars, tid, l, sha>>

SeqToSet(s) == {s[i] : i \in 1..Len(s)}
ToFs(j) == [exists |-> j.exists, hdr |-> SeqToSet(j.hdr), bad |-> SeqToSet(j.bad),
            npy |-> j.npy, npz |-> j.npz, meta |-> j.meta, rec |-> j.rec]
ToObj(j) == [exists |-> j.exists, open |-> j.open, ro |-> j.ro, cache |-> j.cache, rc |-> j.rc]
ToReply(j) == [kind |-> j.kind, s |-> j.s, ks |-> SeqToSet(j.ks),
               ps |-> {<<j.ps[i][1], j.ps[i][2]>> : i \in 1..Len(j.ps)}]

TraceInit == Init /\ tid \in 1..Len(TLog) /\ l = 1 /\ sha = "absent"

(* the Store action an event claims to be, as a predicate on (state, recorded next state) *)
ImplOf(e) ==
  CASE e.op = "create" -> ImplCreate
    [] e.op = "read" -> ImplOpen(TRUE)
    [] e.op = "edit" -> ImplOpen(FALSE)
    [] e.op = "set" -> ImplSet(e.k, e.v, e.f)
    [] e.op = "get" -> ImplGet(e.k)
    [] e.op = "del" -> ImplDel(e.k)
    [] e.op = "contains" -> ImplContains(e.k)
    [] e.op = "iter" -> ImplIter
    [] e.op = "items" -> ImplItems
    [] e.op = "approx" -> ImplApprox(e.k)
    [] e.op = "approxfar" -> ImplApproxFar(e.k)
    [] e.op = "approxwide" -> ImplApproxWide(e.k)
    [] e.op = "unload" -> ImplUnload
    [] e.op = "sync" -> ImplSync
    [] e.op = "setmeta" -> ImplSetMeta(e.m)
    [] e.op = "update" -> ImplUpdate
    [] e.op = "recipe" -> ImplRecipe
    [] e.op = "getrecipe" -> ImplGetRecipe
    [] e.op = "dump" -> ImplDump
    [] e.op = "close" -> ImplClose
    [] e.op = "drop" -> ImplDrop
    [] e.op = "withop" -> ImplWithOperator(e.k)
    [] e.op = "deepcopy" -> ImplDeepcopy
    [] e.op = "createbad" -> ImplCreateBad(e.v)
    [] OTHER -> FALSE

(* the dictionary semantics, driven by the events only *)
GhostOf(e) ==
  CASE e.op = "create" -> IF g.p.exists THEN UNCHANGED g ELSE GhostOpenNew
    [] e.op = "read" -> IF g.p.exists THEN GhostOpenOld(TRUE) ELSE UNCHANGED g
    [] e.op = "edit" -> IF g.p.exists THEN GhostOpenOld(FALSE) ELSE UNCHANGED g
    [] e.op = "set" -> GhostSet(e.k, e.v)
    [] e.op = "setmeta" -> GhostSetMeta(e.m)
    [] e.op = "update" -> GhostUpdate
    [] e.op = "dump" -> GhostDump
    [] e.op = "close" -> GhostClose
    [] e.op = "drop" -> GhostDrop
    [] e.op = "deepcopy" -> GhostDeepcopy
    [] OTHER -> UNCHANGED g

GLive == g.mode \in {"rw", "ro"}
Bad(name) == PrintT(<<"BAD", tid, l, name>>)
Chk(cond, name) == IF cond THEN TRUE ELSE Bad(name)

ExpectGet(k) == IF k \in DOMAIN g.model THEN RVal(g.model[k]) ELSE Exc("LookupError")
ExpectApprox(k) ==
  LET m == {j \in DOMAIN g.model : NfOf[j] = NfOf[k] /\ Near(j, k)} IN
  IF Cardinality(m) = 1 THEN RKey(CHOOSE j \in m : TRUE)
  ELSE IF m = {} THEN RNone ELSE Exc("ValueError")

(* property-grade clauses; evaluated with the primed implementation variables bound *)
Judge(e) ==
  /\ Chk(g.mode # "rw" => e.arcsha = sha, "C39:archive-changed")
  /\ Chk((g.mode \in {"ro", "closed"} /\ e.op \in {"set", "update", "dump", "recipe"}) => reply'.kind = "exc",
         "C39:write-accepted")
  /\ Chk((g.mode = "rw" /\ e.op \in {"set", "update", "dump", "recipe", "close"}) => reply' = Ok,
         "C37:write-refused")
  /\ Chk((GLive /\ e.op = "get") =>
            (IF e.k \in DOMAIN g.model THEN reply' = RVal(g.model[e.k]) ELSE reply'.kind = "exc"),
         "C37:get")
  /\ Chk((GLive /\ e.op = "withop") =>
            (IF e.k \in DOMAIN g.model THEN reply' = RVal(g.model[e.k]) ELSE reply'.kind = "exc"),
         "C37:operator-context")
  /\ Chk((GLive /\ e.op = "deepcopy") =>
            (reply' = Ok /\ arc2'.exists /\ Loadable(arc2')
             /\ [k \in arc2'.hdr |-> IF NFiles(arc2', k) = 1 THEN TheFile(arc2', k) ELSE "unreadable"] = g.model),
         "C37:deepcopy")
  /\ Chk(e.op # "deepcopy" => arc2' = arc2, "C37:copy-changed")
  /\ Chk((e.op = "createbad") => (reply'.kind = "exc" /\ arc' = arc), "C37:bad-create-not-refused")
  /\ Chk((GLive /\ e.op = "contains") => reply' = RBool(e.k \in DOMAIN g.model), "C37:contains")
  /\ Chk((GLive /\ e.op = "iter") => reply' = RKeys(DOMAIN g.model), "C37:iter")
  /\ Chk((GLive /\ e.op = "items") => reply' = RPairs({<<k, g.model[k]>> : k \in DOMAIN g.model}),
         "C37:items")
  /\ Chk((GLive /\ e.op = "approx") => reply' = ExpectApprox(e.k), "C37:approx")
  /\ Chk((GLive /\ e.op = "approxfar") => reply' = RNone, "C37:approx-outside-the-tolerance")
  /\ Chk((GLive /\ e.op = "approxwide") => reply' = ExpectApprox(e.k), "C37:approx-with-given-tolerance")
  /\ Chk((g.mode = "none" /\ g.p.exists /\ e.op \in {"read", "edit"}) => reply' = Ok, "C36:reopen")
  /\ Chk((g.mode = "none" /\ g.p.exists /\ e.op \in {"read", "edit"} /\ reply' = Ok)
            => mmeta' = g.p.meta, "C36:meta")
  /\ Chk((g.mode = "none" /\ ~g.p.exists /\ e.op = "create") => reply' = Ok, "C37:create")

TraceNext ==
  /\ l <= Len(TLog[tid])
  /\ LET e == TLog[tid][l] IN
     /\ obj' = ToObj(e.obj)
     /\ dir' = ToFs(e.dir)
     /\ arc' = ToFs(e.arc)
     /\ arc2' = ToFs(e.arc2)
     /\ mmeta' = e.mmeta
     /\ reply' = ToReply(e.reply)
     /\ last' = [op |-> e.op, k |-> e.k, v |-> e.v, f |-> e.f, m |-> e.m]
     /\ sha' = e.arcsha
     /\ GhostOf(e)
     /\ Judge(e)
     /\ IF ImplOf(e) THEN TRUE ELSE PrintT(<<"CONF", tid, l, e.op>>)
  /\ l' = l + 1
  /\ tid' = tid

Done == l > Len(TLog[tid]) => PrintT(<<"DONE", tid>>)
=============================================================================
