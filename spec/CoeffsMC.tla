------------------------------ MODULE CoeffsMC ------------------------------
(* B1 for C20: internal consistency of the transcribed literature tables.      *)
(* Every cell of the plan is an initial state; the invariants compare          *)
(*   - the SU(3) polynomials with the Casimir forms (beta0-2, gamma0-2),        *)
(*   - every coefficient with the decimal form printed in the literature,       *)
(*   - the QED / mixed formulas with the derivation from the general two-loop   *)
(*     gauge beta function, for nf 0..6 and nl 0..3,                            *)
(*   - well-known values.                                                       *)
(* Mutant # "none" replaces one literal of the transcription: TLC must refute   *)
(* it (vacuity guard of the consistency net).                                   *)
EXTENDS Coeffs
VARIABLE c
Cells ==
  [kind : {"cas"}, obj : CasObjects, k : 0..3, nf : {0}, nl : {0}] \cup
  [kind : {"dec"}, obj : QcdObjects, k : 0..3, nf : {0}, nl : {0}] \cup
  [kind : {"qed"}, obj : QedObjects, k : {0}, nf : 0..6, nl : 0..3] \cup
  [kind : {"known"}, obj : {"-"}, k : {0}, nf : {0}, nl : {0}]
Init == c \in Cells
Next == UNCHANGED c

Transcribed(obj, nf, nl) ==
  CASE obj = "beta_qed02" -> BetaQed02(nf, nl)
    [] obj = "beta_qed03" -> BetaQed03(nf, nl)
    [] obj = "beta_qcd21" -> BetaQcd21(nf)
    [] obj = "beta_qed12" -> BetaQed12(nf)

InvCasimir == c.kind = "cas" => RowEq(CasTable[c.obj][c.k + 1], QcdTable[c.obj][c.k + 1])
InvDecimal == c.kind = "dec" => DecimalAgrees(c.obj, c.k)
InvQed == c.kind = "qed" => Transcribed(c.obj, c.nf, c.nl) = QedValue(c.obj, c.nf, c.nl)
InvKnown == c.kind = "known" => KnownValues
(* the table stays inside 32-bit arithmetic when evaluated at every nf          *)
InvEval == c.kind = "dec" => \A nf \in 0..6 : \A b \in 1..4 : IsQ(EvalPoly(QcdTable[c.obj], nf)[b])
=============================================================================
