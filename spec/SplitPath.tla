------------------------------- MODULE SplitPath -------------------------------
(* C06: evolving mu0 -> mu1 and then mu1 -> mu2 versus evolving mu0 -> mu2 directly,   *)
(* applied to a smooth input.  The statement is about x-space operators produced by    *)
(* separate solves, so it is decided as a CONVERGENCE CLASS on real solves with real    *)
(* quadrature (no shim: x-space composition of separately inverted operators is exactly  *)
(* what is claimed):                                                                      *)
(*   D(n) = max |E12 E01 f - E02 f| / max |E02 f|  on an n-point grid on [1e-2, 1]          *)
(*   measured for n = Coarse and n = 2 Coarse; the harness reports the decade of D(2n) and   *)
(*   100 x log2 of D(n)/D(2n).                                                               *)
(* Required (C06_Composes): the discrepancy on the finer (16-point) grid is at most 1e-2 AND it   *)
(* shrinks under refinement by at least a factor 2 (measured: 5-10, i.e. <= 1e-3 on the >= 25      *)
(* points the statement quotes; clean values at 16 points: 1e-4..3e-3, the largest for the          *)
(* up-and-back shape), unless it already sits at the rounding floor 1e-9.  A composition that is wrong at O(1) - a wrong path, a matching on     *)
(* the wrong side, a non-inverse backward matching - stays at 1e-2..1 on every grid.               *)
(* Cells: order x shape; shapes name where mu0, mu1, mu2 lie (nf patches of the bottom quark):      *)
(*   up-inside       mu0 < mu1 < mu2 inside nf = 4                                                   *)
(*   down-inside     mu0 > mu1 > mu2 inside nf = 4                                                   *)
(*   up-across-low   mu0 < mu1 < m_b < mu2     (the split point below the matching scale)            *)
(*   up-across-high  mu0 < m_b < mu1 < mu2     (the split point above it)                             *)
(*   down-across     mu0 > mu1 > m_b > mu2     (down within nf = 5 first, then the backward matching)   *)
(*   updown          mu0 < mu1 > mu2 inside nf = 4 (up and back: E12 is nearly the inverse of part of E01) *)
EXTENDS Naturals, Integers, Sequences, FiniteSets, TLC
CONSTANT Thorough
Inside == {"up-inside", "down-inside", "updown"}
Across == {"up-across-low", "up-across-high", "down-across"}
(* the split point / the initial point carries nf = 4 ABOVE the bottom matching scale (not the default  *)
(* nf of its scale): the next leg runs down within nf = 4 to the matching scale before it crosses       *)
Forced == {"forced-split", "forced-init"}
(* an initial point above the charm matching scale carrying nf = 3: the first leg runs down in scale    *)
(* within nf = 3, crosses upwards in nf and ends BELOW its starting scale (judged at NLO, where the      *)
(* matching is not the identity)                                                                        *)
DownUp == {"forced-down-up"}
Shapes == Inside \cup Across \cup Forced \cup DownUp
(* quick: LO inside one patch, NLO across the matching scale (the matching is the identity at LO);  *)
(* thorough: every shape at LO, NLO and NNLO                                                        *)
Cells == IF Thorough THEN [order : 1..3, shape : Shapes]
         ELSE [order : {1}, shape : Inside \cup Forced] \cup [order : {2}, shape : Across \cup DownUp]
TolDecade == 2      \* D(16 points) <= 1e-2; together with the shrink factor this is <= 1e-3 at >= 25 points
FloorDecade == 9
C06_Composes(decFine, ratio100) == decFine >= FloorDecade \/ (decFine >= TolDecade /\ ratio100 >= 100)
=============================================================================
