------------------------------- MODULE Cards -------------------------------
(* C40: runcards and dict-like structures round-trip through their raw form.       *)
(*                                                                                 *)
(* A TYPE GRAMMAR of dict-like fields and the (de)serialisation functions          *)
(*     Raw  = eko.io.dictlike.raw_field / DictLike._raw                            *)
(*     Load = eko.io.dictlike.load_field / load_typing / load_enum / _from_dict    *)
(* as pure recursive operators over abstract values.  Two designs:                 *)
(*   Design = "faithful"  line-by-line transcription of /repo/src/eko/io/dictlike.py *)
(*   Design = "intended"  what the property needs (NumPy scalars normalised at      *)
(*                        every position, tuples normalised recursively, the grid   *)
(*                        keeps its logarithmic flag, None wins in Optional)        *)
(* The property predicates are written from the statement only:                    *)
(*   C40_Plain      IsPlain(Raw(v))      (what yaml.safe_dump / safe_load accept)   *)
(*   C40_RoundTrip  Same(Load(T, Raw(v)), v)  (incl. the XGrid log flag)            *)
(*   C40_Interp     dispatcher flag/degree = declared flag/degree                   *)
(*   C40_InterpGrid dispatcher grid points = declared grid points                    *)
(*                                                                                 *)
(* Values and types are records of ONE shape each, so TLC equality is total.        *)
EXTENDS Naturals, Sequences, FiniteSets, TLC

CONSTANT Design          \* "faithful" | "intended"

-----------------------------------------------------------------------------
(* values: k = kind, a = atom (opaque token: numbers travel as tokens),            *)
(* kids = children, n = names (field / key names of objects and dicts)             *)
V(k, a, kids, n) == [k |-> k, a |-> a, kids |-> kids, n |-> n]
Atom(k, a) == V(k, a, <<>>, <<>>)
NoneV == Atom("none", "")
Err(e) == Atom("ERR", e)
IsErr(v) == v.k = "ERR"
Caught(v) == IsErr(v) /\ v.a \in {"TypeError", "ValueError"}    \* what load_typing's Union loop swallows

PyNum == {"pyfloat", "pyint"}
NpNum == {"npfloat64", "npfloat32", "npint64", "npint32"}
NpKinds == NpNum \cup {"npbool"}
ListV(cls, kids) == V("list", cls, kids, <<>>)      \* a = "" plain list, else the list subclass
TupleV(kids) == V("tuple", "", kids, <<>>)
ArrayV(kids) == V("array", "", kids, <<>>)          \* kids: pyfloat/pyint atoms or arrays (rows)
XGridV(flag, pts) == V("xgrid", flag, pts, <<>>)    \* flag "log" | "lin"
EnumV(cls, name, val) == V("enum", name, <<val>>, <<cls>>)
ObjV(cls, kids, names) == V("obj", cls, kids, names)
DictV(kids, names) == V("dict", "", kids, names)
Bool(b) == Atom("pybool", IF b THEN "True" ELSE "False")

(* types: t = tag, cls = class name, args = type arguments / field types,          *)
(* names = field names (obj), en = enum table <<[n |-> name, v |-> value]>>         *)
Ty(t, cls, args, names, en) == [t |-> t, cls |-> cls, args |-> args, names |-> names, en |-> en]
Leaf(t) == Ty(t, "", <<>>, <<>>, <<>>)
TFloat == Leaf("float")
TInt == Leaf("int")
TBool == Leaf("bool")
TStr == Leaf("str")
TNone == Leaf("none")
TArrayAs(ann) == Ty("array", ann, <<>>, <<>>, <<>>)    \* ann: how the field is annotated:
ArrayAnn == {"NDArray", "NDArray[float64]", "ndarray"}  \*   npt.NDArray | npt.NDArray[np.float64] | np.ndarray
TXGrid == Leaf("xgrid")
TDict == Leaf("dict")
TTuple(args) == Ty("tuple", "", args, <<>>, <<>>)
TList(cls, T) == Ty("list", cls, <<T>>, <<>>, <<>>)
TOpt(T) == Ty("union", "", <<T, TNone>>, <<>>, <<>>)
TObj(cls, args, names) == Ty("obj", cls, args, names, <<>>)
TEnumOf(cls, en) == Ty("enum", cls, <<>>, <<>>, en)

SeqMap(Op(_), s) == [i \in DOMAIN s |-> Op(s[i])]
FirstErr(s) == s[CHOOSE i \in DOMAIN s : IsErr(s[i]) /\ \A j \in DOMAIN s : j < i => ~IsErr(s[j])]
AnyErr(s) == \E i \in DOMAIN s : IsErr(s[i])

-----------------------------------------------------------------------------
(* numpy.ndarray.tolist / numpy.array on nested lists                              *)
RECURSIVE ToList(_)
ToList(v) == IF v.k = "array" THEN ListV("", [i \in DOMAIN v.kids |-> ToList(v.kids[i])]) ELSE v
RECURSIVE FromList(_)
FromList(v) == IF v.k = "list" THEN ArrayV([i \in DOMAIN v.kids |-> FromList(v.kids[i])]) ELSE v

PyOf(v) ==      \* numpy scalar -> python scalar (np.generic.item())
  CASE v.k \in {"npfloat64", "npfloat32"} -> Atom("pyfloat", v.a)
    [] v.k \in {"npint64", "npint32"} -> Atom("pyint", v.a)
    [] v.k = "npbool" -> Atom("pybool", v.a)
    [] OTHER -> v

-----------------------------------------------------------------------------
(* raw_field (dictlike.py), clause by clause, in the order of the isinstance tests *)
RECURSIVE Raw(_)
Raw(v) ==
  CASE v.k = "array" -> ToList(v)                                  \* isinstance(value, np.ndarray): tolist()
    [] Design = "intended" /\ v.k \in NpKinds -> PyOf(v)           \* (intended) isinstance(value, np.generic): item()
    [] v.k \in {"pyfloat", "npfloat64"} -> Atom("pyfloat", v.a)    \* isinstance(value, float): np.float64 subclasses float
    [] v.k = "xgrid" ->
         IF Design = "intended"
         THEN DictV(<<ListV("", v.kids), Bool(v.a = "log")>>, <<"grid", "log">>)   \* (intended) value.dump()
         ELSE ListV("", v.kids)                                    \* value.dump()["grid"]: the flag is dropped
    [] v.k = "tuple" ->
         IF Design = "intended" THEN ListV("", [i \in DOMAIN v.kids |-> Raw(v.kids[i])])
         ELSE ListV("", v.kids)                                    \* list(value): no recursion
    [] v.k = "enum" -> v.kids[1]                                   \* value.value
    [] v.k = "obj" -> DictV([i \in DOMAIN v.kids |-> Raw(v.kids[i])], v.n)   \* value.raw = {name: raw_field(attr)}
    [] v.k = "list" -> ListV("", [i \in DOMAIN v.kids |-> Raw(v.kids[i])])   \* [raw_field(el) for el in value]
    [] OTHER -> v                                                  \* return value

(* what yaml.safe_dump represents and yaml.safe_load gives back unchanged           *)
RECURSIVE IsPlain(_)
IsPlain(v) ==
  CASE v.k \in {"pyfloat", "pyint", "pybool", "pystr", "none"} -> TRUE
    [] v.k = "list" -> v.a = "" /\ \A i \in DOMAIN v.kids : IsPlain(v.kids[i])
    [] v.k = "dict" -> \A i \in DOMAIN v.kids : IsPlain(v.kids[i])
    [] OTHER -> FALSE

(* first non-plain leaf of the raw structure r of the value v (parallel descent) and   *)
(* the kind of the container that holds it in v                                      *)
RECURSIVE BadPos(_, _, _)
BadPos(v, r, parent) ==
  IF IsPlain(r) THEN <<"", "">>
  ELSE IF v.k \in {"obj", "list", "tuple"} /\ r.k \in {"dict", "list"} /\ Len(v.kids) = Len(r.kids)
            /\ \E i \in DOMAIN r.kids : ~IsPlain(r.kids[i])
       THEN LET bad == {i \in DOMAIN r.kids : ~IsPlain(r.kids[i])}
                m == CHOOSE i \in bad : \A j \in bad : i <= j
            IN BadPos(v.kids[m], r.kids[m], v.k)
       ELSE <<r.k, parent>>

-----------------------------------------------------------------------------
(* type_(value) for the builtin scalar types, on the plain domain                   *)
Conv(t, x) ==
  CASE x.k = "dict" -> Err("TypeError")                            \* type_(**value)
    [] t = "float" -> CASE x.k \in {"pyfloat", "pyint"} -> Atom("pyfloat", x.a)
                        [] x.k = "pybool" -> Atom("pyfloat", IF x.a = "True" THEN "1.0" ELSE "0.0")
                        [] x.k = "pystr" -> Err("ValueError")
                        [] OTHER -> Err("TypeError")
    [] t = "int" -> CASE x.k \in {"pyfloat", "pyint"} -> Atom("pyint", x.a)     \* integral values only
                      [] x.k = "pybool" -> Atom("pyint", IF x.a = "True" THEN "1.0" ELSE "0.0")
                      [] x.k = "pystr" -> Err("ValueError")
                      [] OTHER -> Err("TypeError")
    [] t = "bool" -> CASE x.k = "pybool" -> x                      \* bool(x) never raises: truthiness
                       [] x.k = "none" -> Bool(FALSE)
                       [] x.k \in {"pyfloat", "pyint"} -> Bool(x.a \notin {"0", "0.0", "-0.0"})
                       [] x.k = "pystr" -> Bool(x.a # "")
                       [] x.k = "list" -> Bool(Len(x.kids) > 0)
                       [] OTHER -> Bool(TRUE)
    [] t = "str" -> CASE x.k = "pystr" -> x                        \* str(x) never raises
                      [] x.k = "none" -> Atom("pystr", "None")
                      [] OTHER -> Atom("pystr", "str(" \o x.a \o ")")
    [] OTHER -> Err("TypeError")

(* load_enum: by name first, then by value                                          *)
LoadEnum(T, x) ==
  IF x.k \in {"list", "dict"} THEN Err("TypeError")                \* unhashable key in type_[value]
  ELSE LET byName == {i \in DOMAIN T.en : x.k = "pystr" /\ T.en[i].n = x.a}
           byVal == {i \in DOMAIN T.en : T.en[i].v = x}
       IN IF byName # {} THEN LET i == CHOOSE i \in byName : TRUE IN EnumV(T.cls, T.en[i].n, T.en[i].v)
          ELSE IF byVal # {} THEN LET i == CHOOSE i \in byVal : TRUE IN EnumV(T.cls, T.en[i].n, T.en[i].v)
          ELSE Err("ValueError")

(* load_field / load_typing / DictLike._from_dict                                   *)
RECURSIVE Load(_, _)
RECURSIVE LoadUnion(_, _, _)
LoadUnion(T, x, i) ==
  IF i > Len(T.args)
  THEN IF \E j \in DOMAIN T.args : T.args[j].t = "none" THEN NoneV ELSE Err("TypeError")
  ELSE LET r == Load(T.args[i], x) IN IF Caught(r) THEN LoadUnion(T, x, i + 1) ELSE r

Load(T, x) ==
  CASE T.t = "union" ->
         IF Design = "intended" /\ x.k = "none" /\ \E j \in DOMAIN T.args : T.args[j].t = "none"
         THEN NoneV                                                \* (intended) None wins
         ELSE LoadUnion(T, x, 1)                                   \* variants in order, TypeError/ValueError swallowed
    [] T.t = "list" ->                                             \* origin([load_field(T, x) for x in value])
         IF x.k # "list" THEN Err("TypeError")                     \* None / numbers are not iterable
         ELSE LET ks == [i \in DOMAIN x.kids |-> Load(T.args[1], x.kids[i])]
              IN IF AnyErr(ks) THEN FirstErr(ks) ELSE ListV(T.cls, ks)
    [] T.t = "tuple" ->                                            \* load_field(tuple, value) = tuple(value): no element loading
         IF x.k = "list" THEN TupleV(x.kids) ELSE Err("TypeError")
    [] T.t = "array" ->
         (* numpy >= 2.4 (installed: 2.5; pyproject: numpy ^2): npt.NDArray is a typing.TypeAliasType.     *)
         (* Bare: get_origin is None and `np.ndarray in type_.__mro__` raises AttributeError; subscripted:  *)
         (* get_origin is the alias and issubclass(origin, (list, Generic)) raises TypeError.               *)
         IF Design = "faithful" /\ T.cls = "NDArray" THEN Err("AttributeError")
         ELSE IF Design = "faithful" /\ T.cls = "NDArray[float64]" THEN Err("TypeError")
         ELSE IF x.k = "list" THEN FromList(x) ELSE x              \* np.array(value) only for lists
    [] T.t = "obj" ->                                              \* type_.from_dict(value)
         IF x.k = "list" THEN                                      \* cls(*dictionary): positional, nothing loaded
              IF Len(x.kids) = Len(T.names) THEN ObjV(T.cls, x.kids, T.names) ELSE Err("TypeError")
         ELSE IF x.k # "dict" THEN Err("TypeError")
         ELSE IF \E i \in DOMAIN T.names : \A j \in DOMAIN x.n : x.n[j] # T.names[i] THEN Err("KeyError")
         ELSE IF \E j \in DOMAIN x.n : \A i \in DOMAIN T.names : x.n[j] # T.names[i] THEN Err("TypeError")
         ELSE LET at(i) == x.kids[CHOOSE j \in DOMAIN x.n : x.n[j] = T.names[i]]
                  ks == [i \in DOMAIN T.names |->
                           IF T.args[i].t = "dict" THEN at(i) ELSE Load(T.args[i], at(i))]
              IN IF AnyErr(ks) THEN FirstErr(ks) ELSE ObjV(T.cls, ks, T.names)
    [] T.t = "enum" -> LoadEnum(T, x)
    [] T.t = "xgrid" ->
         IF x.k = "dict" THEN
              IF Design = "intended" /\ x.n = <<"grid", "log">> /\ x.kids[1].k = "list"
              THEN XGridV(IF x.kids[2].a = "True" THEN "log" ELSE "lin", x.kids[1].kids)   \* (intended) XGrid.load
              ELSE Err("TypeError")                                \* XGrid(**value): unexpected keyword 'grid'
         ELSE IF x.k = "list" THEN
              IF Len(x.kids) < 2 THEN Err("ValueError") ELSE XGridV("log", x.kids)   \* XGrid(value): log defaults to True
         ELSE Err("TypeError")
    [] T.t = "dict" -> IF x.k = "dict" THEN x ELSE Err("TypeError")
    [] T.t = "none" -> Err("TypeError")                            \* NoneType(value) always raises
    [] OTHER -> Conv(T.t, x)

-----------------------------------------------------------------------------
(* equality "same field values": numbers by value whatever scalar kind carries them, *)
(* containers by kind and class, arrays by value, grids by points AND flag           *)
RECURSIVE Norm(_)
Norm(v) ==
  CASE v.k \in PyNum \cup NpNum -> Atom("num", v.a)
    [] v.k \in {"pybool", "npbool"} -> Atom("bool", v.a)
    [] OTHER -> V(v.k, v.a, [i \in DOMAIN v.kids |-> Norm(v.kids[i])], v.n)
Same(v, w) == ~IsErr(v) /\ ~IsErr(w) /\ Norm(v) = Norm(w)

(* where two values differ first: names the defect class                            *)
RECURSIVE Diff(_, _)
Diff(v, w) ==
  IF Norm(v) = Norm(w) THEN ""
  ELSE IF v.k = "xgrid" /\ w.k = "xgrid" /\ Norm(XGridV("", v.kids)) = Norm(XGridV("", w.kids))
       THEN "xgrid-log-flag-lost"
  ELSE IF v.k = "none" /\ w.k # "none" THEN "optional-none-coerced"
  ELSE IF v.k = "array" /\ w.k # "array" THEN "array-not-restored"
  ELSE IF v.k = w.k /\ v.a = w.a /\ v.n = w.n /\ Len(v.kids) = Len(w.kids) /\ Len(v.kids) > 0
       THEN LET bad == {i \in DOMAIN v.kids : Norm(v.kids[i]) # Norm(w.kids[i])}
            IN Diff(v.kids[CHOOSE i \in bad : \A j \in bad : i <= j], w.kids[CHOOSE i \in bad : \A j \in bad : i <= j])
  ELSE "value-differs"

(* the outcome of raw -> safe_dump -> safe_load -> from_dict -> compare              *)
Outcome(T, v) ==
  LET r == Raw(v) IN
  IF ~IsPlain(r)
  THEN LET b == BadPos(v, r, "field") IN "not-plain:" \o b[1] \o "-in-" \o b[2]
  ELSE LET back == Load(T, r) IN
       IF IsErr(back) THEN "load-failed:" \o back.a
       ELSE IF Same(back, v) THEN "ok" ELSE "differs:" \o Diff(v, back)

C40_Plain(T, v) == IsPlain(Raw(v))
C40_RoundTrip(T, v) == IsPlain(Raw(v)) => Same(Load(T, Raw(v)), v)

(* second clause: what commons.interpolator hands to the computation                 *)
(* faithful: InterpolatorDispatcher(xgrid=operator.xgrid, degree) -> log = xgrid.log  *)
DispatcherFlag(cardXgridFlag, declaredFlag) ==
  IF Design = "intended" THEN declaredFlag ELSE cardXgridFlag
C40_Interp(declFlag, declDeg, dispFlag, dispDeg) == dispFlag = declFlag /\ dispDeg = declDeg
(* and the points the dispatcher interpolates on are the x values the card declares *)
C40_InterpGrid(pts) == pts = "same"
=============================================================================
