-------------------------- MODULE HarmonicCacheMC --------------------------
(* B1 for the cache clause of C24: every sequence of at most MaxSteps look-ups *)
(* (31 keys) for each parity flag; the canonical table is printed so that the  *)
(* harness evaluates Canon(k) through the leaf functions from the spec's own   *)
(* table.                                                                      *)
EXTENDS HarmonicCache
CONSTANT MaxSteps
Next == steps < MaxSteps /\ \E k \in Keys : Lookup(k)
Spec == Init /\ [][Next]_vars
CanonSeq == [i \in 1..Len(KeySeq) |->
               [key |-> KeySeq[i], fn |-> CanonFn(KeySeq[i]), arg |-> CanonArg(KeySeq[i]),
                pdep |-> KeySeq[i] \in ParityDependent]]
ASSUME PrintT(<<"CANON", CanonSeq>>)
ASSUME Cardinality(Keys) = 31
=============================================================================
