CONSTANTS UpperClosed = TRUE FirstClosed = TRUE ContractFaithful = TRUE InputInverse = TRUE
INIT Init
NEXT Next
INVARIANT Inv
POSTCONDITION Post
CHECK_DEADLOCK FALSE
