CONSTANT Mutant = "none"
INIT Init
NEXT Next
INVARIANT InvCasimir
INVARIANT InvDecimal
INVARIANT InvQed
INVARIANT InvKnown
INVARIANT InvEval
CHECK_DEADLOCK FALSE
