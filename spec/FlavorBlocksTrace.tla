-------------------------- MODULE FlavorBlocksTrace --------------------------
EXTENDS FlavorBlocks, Json, IOUtils, TLCExt
TLog == JsonDeserialize(IOEnv.TRACE_FILE)
VARIABLE i
Init == i = 1
Next == i <= Len(TLog) /\ i' = i + 1
Verdict(r) ==
  IF r.ev = "unity"
  THEN IF r.cell \notin UnityCells THEN "CONF:cell-outside-domain"
       ELSE IF r.kind # "finite" THEN (IF r.kind \in {"NotImplementedError", "ValueError"} THEN "DIAG:refused" ELSE "C01:crash:" \o r.exc)
       ELSE IF ~UnityApplies(r.cell) THEN "ok"
       ELSE IF ~C01_Blocks(r.cell.qed > 0, r.blocks) THEN "C01:" \o C01_Failing(r.cell.qed > 0, r.blocks)
       ELSE "ok"
  ELSE IF r.ev = "inactive"
  THEN IF r.cell \notin InactiveCells THEN "CONF:cell-outside-domain"
       ELSE IF r.kind # "finite" THEN (IF r.kind \in {"NotImplementedError", "ValueError"} THEN "DIAG:refused" ELSE "C52:crash:" \o r.exc)
       ELSE IF ~C52_Blocks(r.cell.nfHi, r.blocks) THEN "C52:" \o C52_Failing(r.cell.nfHi, r.blocks)
       ELSE "ok"
  ELSE IF r.ev = "unity-coverage"
  THEN IF {r.cells[j] : j \in 1..Len(r.cells)} # UnityCells THEN "COVERAGE:unity-cells-missing" ELSE "ok"
  ELSE IF r.ev = "inactive-coverage"
  THEN IF {r.cells[j] : j \in 1..Len(r.cells)} # InactiveCells THEN "COVERAGE:inactive-cells-missing" ELSE "ok"
  ELSE "CONF:unknown-record"
Inv == i <= Len(TLog) =>
         LET v == Verdict(TLog[i]) IN v = "ok" \/ PrintT(<<"BAD", i, v>>)
Post == TLCGet("stats").diameter = Len(TLog) + 1
=============================================================================
