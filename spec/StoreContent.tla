---------------------------- MODULE StoreContent ----------------------------
(* C36 at the level of content: one record per round-trip experiment on a real   *)
(* EKO.  Phase 1: create, store points (keys given as Python float, NumPy        *)
(* float64, int; neighbours one ulp apart), close, re-read.  Phase 2: edit       *)
(* (overwrite one point, add one, update metadata), close, re-read.              *)
(* The harness only reports which points came back and which arrays / cards /    *)
(* metadata compared bitwise equal; the round-trip predicate is decided here.    *)
EXTENDS Naturals, Sequences, FiniteSets, Json, IOUtils, TLC, TLCExt
TLog == JsonDeserialize(IOEnv.TRACE_FILE)
VARIABLE i
Init == i = 1
Next == i <= Len(TLog) /\ i' = i + 1

S(q) == {q[j] : j \in 1..Len(q)}

(* phase record: expect = indices written so far, got = indices listed by the re-read  *)
(* archive, same = indices whose operator and error arrays are bitwise what was stored *)
PhaseVerdict(p, tag) ==
  IF p.exc # "" THEN tag \o ":raised-" \o p.exc
  ELSE IF p.unknown > 0 THEN tag \o ":unknown-points"
  ELSE IF S(p.got) # S(p.expect) THEN tag \o ":points-differ"
  ELSE IF Len(p.got) # Cardinality(S(p.expect)) THEN tag \o ":duplicate-points"
  ELSE IF S(p.same) # S(p.expect) THEN tag \o ":arrays-differ"
  ELSE IF ~p.theoryEq THEN tag \o ":theory-card-differs"
  ELSE IF ~p.operatorEq THEN tag \o ":operator-card-differs"
  ELSE IF ~p.metaEq THEN tag \o ":metadata-differs"
  ELSE "ok"

Verdict(r) ==
  LET v1 == PhaseVerdict(r.p1, "C36:write-read") IN
  IF v1 # "ok" THEN v1 ELSE PhaseVerdict(r.p2, "C36:edit-read")

Inv == i <= Len(TLog) =>
         LET v == Verdict(TLog[i]) IN v = "ok" \/ PrintT(<<"BAD", i, v>>)
Post == TLCGet("stats").diameter = Len(TLog) + 1
=============================================================================
