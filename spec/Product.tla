------------------------------- MODULE Product -------------------------------
(* C44: ekobox.utils.ekos_product(eko_ini, eko_fin[, path]).  Operators are       *)
(* represented by their action on a 2-dimensional sub-space (2 x 2 integer         *)
(* matrices, signed, non-commuting; the harness embeds them in the 14 x n x 14 x n   *)
(* tensor and checks that the rest stays the identity).  O[a,b] maps input b to      *)
(* output a, so "first ini, then fin" is the matrix product fin . ini, and the         *)
(* solver's first-order error rule is |later|.|d earlier| + |d later|.|earlier|.        *)
EXTENDS Naturals, Integers, Sequences, FiniteSets, TLC

Abs(x) == IF x >= 0 THEN x ELSE -x
Mul(A, B) == [r \in 1..2 |-> [c \in 1..2 |-> A[r][1] * B[1][c] + A[r][2] * B[2][c]]]
Add(A, B) == [r \in 1..2 |-> [c \in 1..2 |-> A[r][c] + B[r][c]]]
AbsM(A) == [r \in 1..2 |-> [c \in 1..2 |-> Abs(A[r][c])]]
Mat(j) == [r \in 1..2 |-> [c \in 1..2 |-> j[r][c]]]

ProductValue(later, earlier) == Mul(later, earlier)
ProductError(later, dlater, earlier, dearlier) ==
  Add(Mul(AbsM(later), AbsM(dearlier)), Mul(AbsM(dlater), AbsM(earlier)))

(* design sanity: the rule is order sensitive and sign insensitive on a witness *)
W1 == <<<<1, 2>>, <<0, 1>>>>
W2 == <<<<1, 0>>, <<3, 1>>>>
ASSUME Mul(W1, W2) # Mul(W2, W1)
ASSUME ProductError(W1, W2, W2, W1) = ProductError(AbsM(W1), W2, W2, W1)
=============================================================================
