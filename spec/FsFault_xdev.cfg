CONSTANTS
  AtomicClose = TRUE
  NWork = 6
  NMembers = 3
  MaxFaults = 1
  CrossDevice = TRUE
  StageInTemp = FALSE
  CloseOnInterrupt = FALSE
INIT Init
NEXT Next
INVARIANT C38_Intact
INVARIANT C38_Retry
INVARIANT C38_Completes
CHECK_DEADLOCK FALSE
