-------------------------------- MODULE Cli --------------------------------
(* C49: the command line interface produces valid runcards and the library's EKO.   *)
(*                                                                                  *)
(* File-system state of one working directory and the five command forms            *)
(*    gen  rc : eko runcards example            (default destination ./runcards)    *)
(*    gen  D  : eko runcards example -d dest                                        *)
(*    run1 l  : eko run <dir l>                 (cards and output by default names) *)
(*    run2 l  : eko run l/theory.yaml l/operator.yaml     (output next to the card) *)
(*    run3 l  : eko run l/theory.yaml l/operator.yaml out.tar                       *)
(*    run2x l : eko run l/theory.yaml m/operator.yaml  with m the other location:    *)
(*              the output is placed next to the OPERATOR card (in m)                *)
(*    insp_mu2 l / insp_cards l : eko inspect -p l/eko.tar mu2grid | cards            *)
(*              read-only commands: print the evolution points / the two cards of an  *)
(*              archive as JSON (beyond the statement of C49: conformance grade)      *)
(* Two designs, selected by switches transcribed from /repo/src/ekobox/cli:         *)
(*    DestMustExist  library.destination: click.Path(exists=True) refuses a         *)
(*                   destination that does not exist yet (exit 2), although         *)
(*                   sub_example itself does destination.mkdir(parents, exist_ok)   *)
(*    ExampleNumpy   sub_example puts np.sqrt(1e5) into mugrid; cards.dump =        *)
(*                   yaml.safe_dump refuses it after theory.yaml has been written   *)
(*                   and operator.yaml has been opened (exit 1, empty file)         *)
(* faithful = both TRUE, intended = both FALSE.                                      *)
EXTENDS Naturals, Sequences, TLC

CONSTANTS DestMustExist, ExampleNumpy

Locs == {"rc", "D"}          \* ./runcards, ./dest
Outs == Locs \cup {"X"}      \* <l>/eko.tar, ./out.tar
CardStates == {"none", "valid", "partial"}   \* partial: a card missing, empty or unreadable
OutStates == {"none", "stale", "eko"}        \* stale: a file that was there before the session

FsStates == [dir : [Locs -> BOOLEAN], cards : [Locs -> CardStates], out : [Outs -> OutStates]]
WellFormed(s) == \A l \in Locs : ~s.dir[l] => s.cards[l] = "none" /\ s.out[l] = "none"

Runs == {"run1", "run2", "run3", "run2x"}
Inspects == {"insp_mu2", "insp_cards"}
Cmds == [op : {"gen"}, l : Locs] \cup [op : Runs, l : Locs] \cup [op : Inspects, l : Locs]
Other(l) == IF l = "rc" THEN "D" ELSE "rc"
Target(c) == IF c.op = "run3" THEN "X" ELSE IF c.op = "run2x" THEN Other(c.l) ELSE c.l
Runnable(c, s) == /\ s.cards[c.l] = "valid"
                  /\ (c.op = "run2x" => s.cards[Other(c.l)] = "valid")
                  /\ s.out[Target(c)] = "none"

Result(c, s) ==
  IF c.op = "gen" THEN
       IF DestMustExist /\ ~s.dir[c.l] THEN [exit |-> "fail", fs |-> s]
       ELSE IF ExampleNumpy
            THEN [exit |-> "fail", fs |-> [s EXCEPT !.dir[c.l] = TRUE, !.cards[c.l] = "partial"]]
            ELSE [exit |-> "ok", fs |-> [s EXCEPT !.dir[c.l] = TRUE, !.cards[c.l] = "valid"]]
  ELSE IF c.op \in Inspects
       THEN [exit |-> IF s.out[c.l] = "eko" THEN "ok" ELSE "fail", fs |-> s]   \* never writes
  ELSE IF Runnable(c, s)
       THEN [exit |-> "ok", fs |-> [s EXCEPT !.out[Target(c)] = "eko"]]
       ELSE [exit |-> "fail", fs |-> s]       \* missing card: FileNotFoundError; output there: OutputExistsError

-----------------------------------------------------------------------------
(* the property, written from the statement; st = [cmd, pre, post, exit, cardsEq, ops] *)
(* cardsEq: the written cards load back into cards equal to the example objects        *)
(* ops: the archive's operators equal bitwise those of eko.solve on the same cards      *)
C49_Gen(st) == st.cmd.op = "gen" =>
                 /\ st.exit = "ok"
                 /\ st.post.dir[st.cmd.l] /\ st.post.cards[st.cmd.l] = "valid"
                 /\ st.cardsEq = "equal"
C49_Run(st) == (st.cmd.op \in Runs /\ Runnable(st.cmd, st.pre)) =>
                 /\ st.exit = "ok"
                 /\ st.post.out[Target(st.cmd)] = "eko"
                 /\ st.ops = "same"
(* not part of the statement, checked as conformance: refused runs change nothing      *)
RunRefused(st) == (st.cmd.op \in Runs /\ ~Runnable(st.cmd, st.pre)) => st.exit = "fail" /\ st.post = st.pre
(* inspection: succeeds exactly on an archive, prints what the library reads from it (st.ops = "same"), *)
(* and leaves the working directory as it was                                                        *)
Inspect(st) == st.cmd.op \in Inspects =>
                 /\ st.post = st.pre
                 /\ st.exit = (IF st.pre.out[st.cmd.l] = "eko" THEN "ok" ELSE "fail")
                 /\ (st.exit = "ok" => st.ops = "same")
Frame(st) == /\ \A l \in Locs \ {st.cmd.l} : st.post.dir[l] = st.pre.dir[l] /\ st.post.cards[l] = st.pre.cards[l]
             /\ \A o \in Outs : (st.cmd.op \notin Runs \/ o # Target(st.cmd)) => st.post.out[o] = st.pre.out[o]
=============================================================================
