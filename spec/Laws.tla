-------------------------------- MODULE Laws --------------------------------
(* Mode L (DESIGN 1, 4.11): for every law over the evolution kernels                *)
(*   (i)  its CELL DOMAIN  Cells(law)  - the configuration space the law quantifies *)
(*        over; TLC enumerates it (LawsPlan) and the harness measures every cell;   *)
(*   (ii) the DERIVATION  Req(law, cell)  of the class a measurement must fall in,  *)
(*        from structural attributes of the solution methods as documented          *)
(*        (doc/source/theory/DGLAP.rst), not from a hand-typed table;               *)
(*   (iii) the acceptance predicate  Accept(req, m)  over a recorded measurement    *)
(*        m = [law, cell, dec, exp100, resolved].                                   *)
(* Observations are integers: dec = whole decades of a relative residual below 1    *)
(* (99 = exactly zero), exp100 = 100 x a measured exponent.                         *)
EXTENDS Integers, Sequences, FiniteSets, TLC, IOUtils

Switch == IF "SWITCH" \in DOMAIN IOEnv THEN IOEnv.SWITCH ELSE "none"

Orders == 1..4
Nfs == 3..6
Dirs == {"fwd", "bwd"}
Methods == {"iterate-exact", "iterate-expanded", "perturbative-exact",
            "perturbative-expanded", "truncated", "ordered-truncated",
            "decompose-exact", "decompose-expanded"}

(* ------------------------- structural attributes ------------------------------ *)
Family(m) == CASE m \in {"iterate-exact", "iterate-expanded"} -> "iterate"
               [] m \in {"perturbative-exact", "perturbative-expanded"} -> "perturbative"
               [] m \in {"decompose-exact", "decompose-expanded"} -> "decompose"
               [] m = "truncated" -> "truncated"
               [] m = "ordered-truncated" -> "ordered-truncated"

(* which evolution integrals the non-singlet closed form is built from *)
Integrals(m) == CASE m \in {"iterate-exact", "perturbative-exact", "decompose-exact"} -> "exact"
                  [] m \in {"iterate-expanded", "perturbative-expanded", "decompose-expanded"} -> "expanded"
                  [] OTHER -> "lo"

(* form of the non-singlet kernel at perturbative order n (1 = LO) *)
NsForm(m, n) == IF n = 1 THEN "ExpAdditive"                       \* LO: always the exact solution
                ELSE CASE Family(m) = "truncated" -> "Truncated"  \* E0 * polynomial in a1, a0
                       [] Family(m) = "ordered-truncated" -> "RatioU"    \* E0 * U(a1)/U(a0)
                       [] OTHER -> "ExpAdditive"                  \* exp(sum gamma_k j_k), j additive
NsExact(m, n) == n = 1 \/ Integrals(m) = "exact"

(* form of the singlet kernel *)
SingletForm(m, n) ==
  IF n = 1 THEN "ExpAdditive"
  ELSE CASE Family(m) = "iterate" -> "PathOrdered"    \* both iterate-* discretise the exact ODE
         [] Family(m) = "perturbative" -> "USeries"   \* U_K(a1) E0 U_K(a0)^-1 per step
         [] Family(m) \in {"truncated", "ordered-truncated"} -> "Truncated"  \* no ordered form for matrices
         [] Family(m) = "decompose" -> "ExpNsIntegrals" \* exp(sum gamma_k j_k): neglects commutators
UsesNsIntegrals(m) == Family(m) = "decompose"
Discretised(m, n) == SingletForm(m, n) \in {"PathOrdered", "USeries"}

ComposesExactly(sector, m, n) ==
  IF Switch = "AllCompose" THEN TRUE
  ELSE IF sector = "ns" THEN NsForm(m, n) \in {"ExpAdditive", "RatioU"}
  ELSE SingletForm(m, n) = "ExpAdditive"               \* LO singlet only: one matrix, additive j
ComposesInLimit(sector, m, n) == sector = "singlet" /\ SingletForm(m, n) = "PathOrdered"

(* the non-singlet method whose form a singlet method realises on a diagonal tower *)
NsCounterpart(m) ==
  IF Switch = "SameMethodCounterpart" THEN m
  ELSE CASE Family(m) = "iterate" -> "iterate-exact"   \* PathOrdered -> exact solution of the truncated ODE
         [] m = "ordered-truncated" -> "truncated"     \* singlet ordered-truncated is the truncated form
         [] OTHER -> m

(* first power of the coupling an N^(n-1)LO method is allowed to get wrong: it keeps  *)
(* gamma_0..gamma_(n-1) and beta_0..beta_(n-1), i.e. ln E through a^(n-1).  Methods    *)
(* built on the non-singlet integrals are held to it for commuting towers only.     *)
RequiredOrder(sector, m, n, commuting) ==
  IF sector = "singlet" /\ UsesNsIntegrals(m) /\ ~commuting /\ Switch # "DecomposeNonCommuting"
  THEN 0 ELSE n

(* ------------------------------- requirements --------------------------------- *)
None == [kind |-> "none", lo |-> 0, hi |-> 0, name |-> "not-required"]
Dec(d, nm) == [kind |-> "dec", lo |-> (IF Switch = "Strict" THEN 99 ELSE d), hi |-> 99, name |-> nm]
Exp(lo, hi, nm) == [kind |-> "exp", lo |-> lo, hi |-> hi, name |-> nm]

Accept(q, m) ==
  CASE q.kind = "none" -> TRUE
    [] q.kind = "dec" -> m.dec >= q.lo
    [] q.kind = "exp" -> m.exp100 >= q.lo /\ m.exp100 <= q.hi

(* =============================== C07 OdeLocal ================================= *)
C07_Cells ==
  {[clause |-> cl, variant |-> "qcd", method |-> m, order |-> n, nf |-> f, dir |-> d] :
     cl \in {"init", "ode"}, m \in Methods, n \in Orders, f \in Nfs, d \in Dirs}
  \cup
  {[clause |-> cl, variant |-> v, method |-> "exact", order |-> n, nf |-> f, dir |-> d] :
     cl \in {"init", "ode", "scale", "steps"}, v \in {"qed1", "qed2"}, n \in Orders, f \in Nfs, d \in Dirs}
C07_InDomain(c) == c.variant # "qcd" \/ NsExact(c.method, c.order)
(* "steps": the dispatcher's product over coupling / scale steps with the same alpha_em on every step equals  *)
(* the one-step solution between the end points (the exact kernel and the pure-QED scale factor compose)      *)
C07_Req(c) == IF c.clause = "init" THEN Dec(12, "rounding")
              ELSE IF c.clause = "steps" THEN Dec(10, "steps-compose")
              ELSE Dec(7, "local-ode-1e-7")

(* ============================ C13 evolution integrals ========================= *)
(* level = number of beta coefficients kept, power = k in a^k / beta(a) *)
Integral == [j12 |-> [level |-> 1, power |-> 1],
             nlo_j13 |-> [level |-> 2, power |-> 1], nlo_j23 |-> [level |-> 2, power |-> 2],
             nnlo_j14 |-> [level |-> 3, power |-> 1], nnlo_j24 |-> [level |-> 3, power |-> 2],
             nnlo_j34 |-> [level |-> 3, power |-> 3],
             n3lo_j03 |-> [level |-> 4, power |-> 1], n3lo_j13 |-> [level |-> 4, power |-> 2],
             n3lo_j23 |-> [level |-> 4, power |-> 3], n3lo_j33 |-> [level |-> 4, power |-> 4]]
BSources == Nfs \cup {0}                    \* 0 = random positive b coefficients
C13_Cells ==
  {[clause |-> cl, name |-> j, bsrc |-> b, dir |-> d] :
     cl \in {"zero", "local", "taylor", "trunc"}, j \in DOMAIN Integral, b \in BSources, d \in Dirs}
  \* the cubic roots are quantified over the N3LO beta polynomial of the physical theory only
  \cup {[clause |-> cl, name |-> "roots", bsrc |-> b, dir |-> "-"] : cl \in {"root", "vieta"}, b \in Nfs}
C13_InDomain(c) == c.clause \in {"taylor", "trunc"} => Integral[c.name].level >= 2  \* j12 has no expansion
C13_Req(c) ==
  CASE c.clause = "zero" -> Dec(12, "rounding")
    [] c.clause = "local" -> Dec(7, "local-derivative-1e-7")
    [] c.clause = "taylor" ->                        \* exact - expanded = O(a^level)
         LET n == Integral[c.name].level IN Exp(100 * n - 35, 9000, "order-of-vanishing")
    [] c.clause = "trunc" -> Dec(11, "rounding")     \* expanded = the Taylor polynomial of the integrand, integrated: all terms up to
                                                    \* a^(level - power) of 1/(1 + b1 a + ...) and no others
    [] c.clause \in {"root", "vieta"} -> Dec(10, "rounding")

(* ================================ C23 Spectral ================================ *)
(* shape: how the matrix is drawn.  generic = V diag(lambda) V^-1 with random V; the others  *)
(* are the structured matrices the kernels actually produce or a shortcut could single out: *)
(* all diagonal entries equal, upper triangular, real entries, one index decoupled (its row *)
(* and column empty off the diagonal); all diagonalisable with separated eigenvalues.        *)
C23_Shapes == {"generic", "eqdiag", "triangular", "real", "decoupled"}
C23_Cells == {[clause |-> cl, impl |-> im, norm |-> s, shape |-> sh] :
                cl \in {"proj", "complete", "recon", "exp", "expm"},
                im \in {"2D", "gen2", "gen4"}, s \in {1, 10, 50}, sh \in C23_Shapes}
C23_Req(c) == IF c.clause = "expm" THEN Dec(9, "reference-exponential") ELSE Dec(11, "rounding")

(* ========================= C10 Identity and Compose =========================== *)
C10_Cells ==
  {[clause |-> cl, sector |-> s, method |-> m, order |-> n, qed |-> 0, nf |-> f] :
     cl \in {"identity", "compose", "roundtrip"}, s \in {"ns", "singlet"}, m \in Methods,
     n \in Orders, f \in Nfs}
  \cup
  {[clause |-> "identity", sector |-> s, method |-> "iterate-exact", order |-> n, qed |-> q, nf |-> f] :
     s \in {"ns-qed", "singlet-qed", "valence-qed"}, n \in Orders, q \in 1..2, f \in Nfs}
(* the midpoint steps on the (reversed) geometric grid are the inverses of the forward  *)
(* steps: the path-ordered product is reversible to rounding although it only composes *)
(* in the limit                                                                        *)
Reversible(sector, m, n) == ComposesExactly(sector, m, n) \/ ComposesInLimit(sector, m, n)
C10_Req(c) ==
  CASE c.clause = "identity" -> Dec(11, "rounding")
    [] c.clause = "roundtrip" ->
         IF Reversible(c.sector, c.method, c.order) THEN Dec(11, "rounding") ELSE None
    [] c.clause = "compose" ->
         IF ComposesExactly(c.sector, c.method, c.order) THEN Dec(11, "rounding")
         ELSE IF ComposesInLimit(c.sector, c.method, c.order) THEN Exp(158, 9000, "convergent")
         ELSE None

(* ============================== C09 DiagReduction ============================= *)
C09_Cells == {[clause |-> "reduce", method |-> m, order |-> n, nf |-> f, dir |-> d] :
                m \in Methods, n \in 2..4, f \in Nfs, d \in Dirs}
C09_Req(c) == IF Discretised(c.method, c.order)
              THEN Exp(158, 9000, "convergent")     \* shrinks >= 3x per refinement step
              ELSE Dec(11, "rounding")

(* ================================ C11 Conserve ================================ *)
ItersFor(m, n) == IF Discretised(m, n) THEN {1, 2, 7, 50} ELSE {1}
C11_Cells ==
  {[clause |-> "conserve", kind |-> "kernel-singlet", method |-> m, order |-> n, qed |-> 0,
    nf |-> f, iters |-> it, sv |-> v, dim |-> 2, back |-> "-"] :
     m \in Methods, n \in Orders, f \in Nfs, it \in {1, 2, 7, 50}, v \in {"none", "exponentiated"}}
  \cup
  {[clause |-> "conserve", kind |-> "kernel-ns", method |-> m, order |-> n, qed |-> 0,
    nf |-> f, iters |-> 1, sv |-> v, dim |-> 1, back |-> "-"] :
     m \in Methods, n \in Orders, f \in Nfs, v \in {"none", "exponentiated"}}
  \cup
  {[clause |-> "conserve", kind |-> k, method |-> "iterate-exact", order |-> n, qed |-> q,
    nf |-> f, iters |-> it, sv |-> v, dim |-> (IF k = "kernel-singlet-qed" THEN 4 ELSE 2), back |-> "-"] :
     k \in {"kernel-singlet-qed", "kernel-valence-qed"}, n \in Orders, q \in 1..2, f \in Nfs,
     it \in {1, 2, 7, 50}, v \in {"none", "exponentiated-running", "exponentiated-fixed"}}
  \cup
  {[clause |-> "conserve", kind |-> "sv-expanded", method |-> "-", order |-> n, qed |-> 0,
    nf |-> f, iters |-> 0, sv |-> "expanded", dim |-> d, back |-> "-"] :
     n \in Orders, f \in Nfs, d \in {1, 2}}
  \cup
  {[clause |-> "conserve", kind |-> "sv-expanded-qed", method |-> "-", order |-> n, qed |-> q,
    nf |-> f, iters |-> 0, sv |-> v, dim |-> d, back |-> "-"] :
     n \in Orders, q \in 1..2, f \in Nfs, d \in {1, 2, 4}, v \in {"expanded-running", "expanded-fixed"}}
  \cup
  {[clause |-> "conserve", kind |-> "matching", method |-> "-", order |-> n, qed |-> 0,
    nf |-> f, iters |-> 0, sv |-> v, dim |-> d, back |-> b] :
     n \in 1..3, f \in {3, 5}, d \in {2, 3}, b \in {"forward", "exact", "expanded"},
     v \in {"none", "exponentiated"}}
C11_InDomain(c) == c.kind = "kernel-singlet" => c.iters \in ItersFor(c.method, c.order)
C11_Req(c) == Dec(10, "rounding")

(* ============================ C12 ConvergenceOrder ============================ *)
C12_Cells ==
  {[clause |-> cl, sector |-> "singlet", order |-> n, qed |-> 0, nf |-> f, dir |-> d] :
     cl \in {"ratio", "pert-limit", "ode"}, n \in 2..4, f \in Nfs, d \in Dirs}
  \cup
  {[clause |-> cl, sector |-> s, order |-> n, qed |-> q, nf |-> f, dir |-> d] :
     cl \in {"ratio", "ode"}, s \in {"singlet-qed", "valence-qed"}, n \in Orders, q \in 1..2,
     f \in Nfs, d \in Dirs}
C12_Req(c) ==
  CASE c.clause = "ratio" ->                                      \* midpoint rule: second order
         IF Switch = "FirstOrderScheme" THEN Exp(81, 117, "first-order")   \* ratio in [1.75, 2.25]
         ELSE Exp(181, 217, "second-order")                       \* ratio of differences in [3.5, 4.5]
    [] c.clause = "pert-limit" -> Exp(158, 9000, "monotone-approach")
    [] c.clause = "ode" -> Dec(5, "local-ode-of-limit")

(* ============================== C08 OrderAgreement ============================ *)
ApproxNs == {m \in Methods : ~NsExact(m, 2)}
ApproxSinglet == {m \in Methods : SingletForm(m, 2) # "PathOrdered"}
C08_Cells ==
  {[clause |-> "order", sector |-> "ns", method |-> m, order |-> n, nf |-> f, comm |-> TRUE] :
     m \in ApproxNs, n \in 2..4, f \in Nfs}
  \cup
  {[clause |-> "order", sector |-> "singlet", method |-> m, order |-> n, nf |-> f, comm |-> cm] :
     m \in ApproxSinglet, n \in 2..4, f \in Nfs, cm \in BOOLEAN}
C08_Req(c) ==
  LET n == RequiredOrder(c.sector, c.method, c.order, c.comm)
  IN IF n = 0 THEN None ELSE Exp(100 * n - 35, 9000, "working-order")

(* ================================ C14 QED at a_em = 0 ========================= *)
C14_Cells ==
  {[clause |-> "equal", sector |-> "ns", order |-> n, qed |-> q, nf |-> f] :
     n \in Orders, q \in 1..2, f \in Nfs}
  \cup
  {[clause |-> cl, sector |-> "singlet", order |-> n, qed |-> q, nf |-> f] :
     cl \in {"block", "photon", "delta", "delta-limit"}, n \in Orders, q \in 1..2, f \in Nfs}
  \cup
  {[clause |-> cl, sector |-> "valence", order |-> n, qed |-> q, nf |-> f] :
     cl \in {"delta", "delta-limit"}, n \in Orders, q \in 1..2, f \in Nfs}
C14_Req(c) == IF c.clause = "delta-limit" THEN Exp(158, 9000, "convergent")
              ELSE Dec(10, "rounding")

(* ================================ C15 couplings =============================== *)
C15_Cells ==
  {[clause |-> cl, order |-> n, qed |-> q, running |-> r, method |-> m, nf |-> f] :
     cl \in {"ref", "monotone"}, n \in Orders, q \in 0..2, r \in BOOLEAN,
     m \in {"exact", "expanded"}, f \in 3..5}
  \cup
  {[clause |-> "rge", order |-> n, qed |-> q, running |-> r, method |-> "exact", nf |-> f] :
     n \in Orders, q \in 0..2, r \in BOOLEAN, f \in 3..5}
  \cup
  {[clause |-> "expanded-order", order |-> n, qed |-> q, running |-> r, method |-> "expanded", nf |-> f] :
     n \in Orders, q \in 0..2, r \in BOOLEAN, f \in 3..5}
  \cup   \* the local law far from the reference (1-4 units of ln mu^2 away, same patch): with the value at the reference
         \* and continuity this makes the returned function THE solution, not only a solution near the reference
  {[clause |-> "rge-far", order |-> n, qed |-> q, running |-> r, method |-> "exact", nf |-> f] :
     n \in Orders, q \in 0..2, r \in BOOLEAN, f \in 3..5}
  \cup   \* with running QED the number of leptons changes at the tau mass inside a patch: the local
         \* law at a target on the OTHER side of m_tau from the reference (2 leptons below, 3 above)
  {[clause |-> cl, order |-> n, qed |-> q, running |-> TRUE, method |-> "exact", nf |-> f] :
     cl \in {"rge-tau-down", "rge-tau-up"}, n \in Orders, q \in 1..2, f \in 3..4}
  \cup   \* ... and the solution is ONE solution from the reference: continuous at m_tau (the local law on both sides
         \* and the value at the reference do not exclude a jump where the path is cut into two legs)
  {[clause |-> cl, order |-> n, qed |-> q, running |-> r, method |-> m, nf |-> f] :
     cl \in {"tau-cont-down", "tau-cont-up"}, n \in Orders, q \in 1..2, r \in BOOLEAN, m \in {"exact", "expanded"}, f \in 3..4}
C15_InDomain(c) == c.running => c.qed >= 1     \* alpha_em can only run when QED is switched on
(* The RGE truncated at order n keeps a^2..a^(n+1); "agrees up to terms beyond the     *)
(* working order" = the absolute difference is O(a^(n+2)); with running alpha_em the    *)
(* mixed terms are kept to first order only: O(a^3) (beyond second order).              *)
C15_ExpandedOrder(c) == IF c.running THEN 3 ELSE c.order + 2
C15_Req(c) ==
  CASE c.clause = "ref" -> Dec(99, "bitwise")
    [] c.clause = "monotone" -> Dec(99, "no-inversion")
    [] c.clause = "rge" -> Dec(7, "local-rge-1e-7")
    [] c.clause = "rge-far" -> Dec(3, "local-rge-far-from-the-reference-1e-3")
    [] c.clause \in {"rge-tau-down", "rge-tau-up"} -> Dec(3, "local-rge-across-tau-1e-3")
    [] c.clause \in {"tau-cont-down", "tau-cont-up"} -> Dec(3, "continuous-at-the-tau-mass")
    [] c.clause = "expanded-order" -> Exp(100 * C15_ExpandedOrder(c) - 35, 9000, "beyond-working-order")

(* =============================== dispatch ===================================== *)
LawIds == {"C07", "C08", "C09", "C10", "C11", "C12", "C13", "C14", "C15", "C23"}
Cells(law) ==
  CASE law = "C07" -> {c \in C07_Cells : C07_InDomain(c)}
    [] law = "C08" -> C08_Cells
    [] law = "C09" -> C09_Cells
    [] law = "C10" -> C10_Cells
    [] law = "C11" -> {c \in C11_Cells : C11_InDomain(c)}
    [] law = "C12" -> C12_Cells
    [] law = "C13" -> {c \in C13_Cells : C13_InDomain(c)}
    [] law = "C14" -> C14_Cells
    [] law = "C15" -> {c \in C15_Cells : C15_InDomain(c)}
    [] law = "C23" -> C23_Cells
Req(law, c) ==
  CASE law = "C07" -> C07_Req(c)
    [] law = "C08" -> C08_Req(c)
    [] law = "C09" -> C09_Req(c)
    [] law = "C10" -> C10_Req(c)
    [] law = "C11" -> C11_Req(c)
    [] law = "C12" -> C12_Req(c)
    [] law = "C13" -> C13_Req(c)
    [] law = "C14" -> C14_Req(c)
    [] law = "C15" -> C15_Req(c)
    [] law = "C23" -> C23_Req(c)
(* derived attributes the measurement needs (handed to the harness with the plan) *)
Aux(law, c) ==
  CASE law = "C09" -> [counterpart |-> NsCounterpart(c.method),
                        refine |-> IF SingletForm(c.method, c.order) = "PathOrdered" THEN "iterations"
                                   ELSE IF SingletForm(c.method, c.order) = "USeries" THEN "max-order"
                                   ELSE "none"]
    [] OTHER -> [none |-> 0]
(* number of cells that may be left unresolved before the check counts as not carried out *)
UnresolvedBudget(law) == Cardinality(Cells(law)) \div 4

(* ------------------- lemmas on the derivation (checked by LawsPlan) ----------- *)
LemmaForms ==
  /\ \A m \in Methods : NsForm(m, 1) = "ExpAdditive" /\ SingletForm(m, 1) = "ExpAdditive"
  /\ \A m \in Methods, n \in 2..4 :
        /\ ComposesExactly("ns", m, n) <=> Family(m) # "truncated"
        /\ ~ComposesExactly("singlet", m, n)
        /\ (NsExact(m, n) => NsForm(m, n) = "ExpAdditive")
        \* the counterpart of a singlet method has the form the singlet method realises
        /\ (SingletForm(m, n) = "Truncated" => NsForm(NsCounterpart(m), n) = "Truncated")
        /\ (SingletForm(m, n) = "PathOrdered" => NsExact(NsCounterpart(m), n))
        /\ (SingletForm(m, n) \in {"USeries", "ExpNsIntegrals"} => NsCounterpart(m) = m)
        /\ RequiredOrder("ns", m, n, TRUE) = n
        /\ (RequiredOrder("singlet", m, n, FALSE) = 0 <=> UsesNsIntegrals(m))
=============================================================================
