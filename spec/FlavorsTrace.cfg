CONSTANT QedSectorMap = "unified"
CONSTANT DeltaRows = "orthogonalised"
CONSTANT NormalizeOut = TRUE
CONSTANT QcdOthCoef = "nf-1"
CONSTANT NormalizeProj = TRUE
INIT Init
NEXT Next
INVARIANT Inv
POSTCONDITION Post
CHECK_DEADLOCK FALSE
