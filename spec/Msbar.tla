-------------------------------- MODULE Msbar --------------------------------
(* C18 bookkeeping of eko.msbar_masses.compute: for each heavy quark q (1=c, 2=b,  *)
(* 3=t) the input is a reference mass m given at a scale Qm.  What matters is the     *)
(* sign pattern:  rm = Qm versus m  ("lt","eq","gt"),  rq = Qm versus the coupling     *)
(* reference scale Qref ("lt","gt"), and nfref in 3..6.                                *)
(*                                                                                   *)
(* Meaning (documentation): alpha_s given with nfref flavours at Qref means quarks      *)
(* 1..nfref-3 are active there (their thresholds lie below Qref) and the others are      *)
(* not (thresholds above).  The MSbar mass is the fixed point m(m) = m, searched in the   *)
(* patch adjoining the quark's own threshold on the side of the coupling reference:        *)
(* for an active quark the patch above its threshold (nf = q+3) reached running DOWN        *)
(* from Qm >= m; for an inactive quark the patch below (nf = q+2) reached running UP          *)
(* from Qm <= m.                                                                          *)
EXTENDS Naturals, Sequences, FiniteSets, TLC

Quarks == 1..3
Rel == {"lt", "eq", "gt"}
Inputs == [q : Quarks, rm : Rel, rq : {"lt", "gt"}, nfref : 3..6]

ActiveAtRef(i) == i.q + 3 <= i.nfref

(* independent statement of consistency *)
Consistent(i) ==
  \/ i.rm = "eq"                                   \* already the fixed point
  \/ /\ ActiveAtRef(i) /\ i.rm = "gt"              \* run down to the threshold from above
     /\ (i.q + 3 = i.nfref => i.rq = "lt")         \* the last active quark: its scales lie below Qref
  \/ /\ ~ActiveAtRef(i) /\ i.rm = "lt"             \* run up to the threshold from below
     /\ (i.q + 3 = i.nfref + 1 => i.rq = "gt")     \* the first inactive quark: its scales lie above Qref
TargetNf(i) == IF ActiveAtRef(i) THEN i.q + 3 ELSE i.q + 2

(* transcription of the checks in compute() (q_idx = q - 1) *)
Coded(i) ==
  IF i.rm = "eq" THEN "accept"
  ELSE IF i.q + 3 = i.nfref /\ i.rq = "gt" THEN "ValueError"
  ELSE IF i.q + 3 = i.nfref + 1 /\ i.rq = "lt" THEN "ValueError"
  ELSE IF i.q + 2 >= i.nfref /\ i.rm # "lt" THEN "ValueError"
  ELSE IF i.q + 2 < i.nfref /\ i.rm = "lt" THEN "ValueError"
  ELSE "accept"
CodedTargetNf(i) == IF i.q + 2 < i.nfref THEN i.q + 3 ELSE i.q + 2

C18_Table == \A i \in Inputs :
  /\ (Coded(i) = "accept") = Consistent(i)
  /\ (Coded(i) = "accept" /\ i.rm # "eq" => CodedTargetNf(i) = TargetNf(i))
=============================================================================
