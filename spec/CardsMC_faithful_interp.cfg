CONSTANT Design = "faithful"
INIT Init
NEXT Next
INVARIANT InvInterp
CHECK_DEADLOCK FALSE
