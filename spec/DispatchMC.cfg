INIT Init
NEXT Next
INVARIANT InvTable
CHECK_DEADLOCK FALSE
