CONSTANTS
  G = 5
  W = 3
  ChunkSize = 1
  OrderedCollect = TRUE
  WorkerState = FALSE
INIT Init
NEXT Next
INVARIANT C03_ScheduleFree
INVARIANT OnceEach
CHECK_DEADLOCK FALSE
