------------------------------ MODULE StoreMC ------------------------------
EXTENDS Store
MCKeys == {"k1", "k2", "k3"}
MCKeys2 == {"k1", "k3"}          \* quick: one nf-4 and one nf-5 point; approx ambiguity is covered by the 3-key configs
MCNfOf2 == [k \in MCKeys2 |-> IF k = "k3" THEN 5 ELSE 4]
MCNfOf == [k \in MCKeys |-> IF k = "k3" THEN 5 ELSE 4]
MCCloseTo == {{"k1", "k2"}}
(* exploration bound for the exhaustive configs: the second archive holds at most one point *)
BoundNoCopy == ~arc2.exists
BoundCopy == Cardinality(arc2.hdr) <= 1 /\ arc2.meta = "m0"
=============================================================================
