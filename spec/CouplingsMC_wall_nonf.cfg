CONSTANTS
  INF = 9
  Ms <- MCMs
  RefPoint <- MCRefWall
  QScales = {1,2,3,4,5}
  QNfs = {3, 4, 5}
  MaxQueries = 3
  MaxMutations = 2
  CopyRef = TRUE
  CopyOnHit = TRUE
  Qed = FALSE
  TauTok = 100
  TauBelow = 2
  CopyOnStore = TRUE
  KeyHasNf = FALSE
  TrivialDec = TRUE
INIT Init
NEXT Next
INVARIANT C17_HistoryFree
CHECK_DEADLOCK FALSE
