------------------------------ MODULE AtlasMC ------------------------------
(* B1 for C19: every order type of three matching scales (ties, unsorted, 0 and *)
(* infinity included) x origin x target, as initial states.                     *)
EXTENDS Atlas, TLC
VARIABLES ms, o, t, m
vars == <<ms, o, t, m>>

Finite == 1..(INF - 1)
Points == Finite \X (NfRange \cup {NoNf})

Init == /\ ms \in [1..3 -> 0..INF]
        /\ o \in Points
        /\ t \in Points
        /\ m \in {<<1, 3>>}
Next == UNCHANGED vars

Defined == NormalizeDefined(o, ms) /\ NormalizeDefined(t, ms)

InvWellFormed == Defined => C19_WellFormed(ms, o, t, Path(ms, o, t))
InvMatched == Defined => C19_Matched(Path(ms, o, t), MatchedPath(ms, o, t))
InvDefaultFlow == (Sorted(ms) /\ t[2] = NoNf) => Normalize(t, ms)[2] = DefaultNf(t[1], ms)
(* unsorted scales never define a default flow *)
InvUnsorted == ~Sorted(ms) => ~NfDefaultDefined(ms)
=============================================================================
