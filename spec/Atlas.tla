------------------------------- MODULE Atlas -------------------------------
(* Flavour-number landscape of eko (src/eko/matchings.py).                      *)
(*                                                                             *)
(* Scales are naturals; only their order (with ties) matters to every operator  *)
(* below, so a domain with as many ranks as there are scales in an instance is  *)
(* complete up to order isomorphism.  INF stands for numpy.inf, 0 for 0.        *)
(*                                                                             *)
(* Part 1 is a transcription of the code (what it does);                        *)
(* Part 2 are the property predicates of C19 (what it must do), written without *)
(* reference to Part 1, so they can be evaluated on the code's own output.      *)
EXTENDS Naturals, Integers, Sequences, FiniteSets

CONSTANT INF           \* token of +infinity, larger than every finite scale token

NoNf == 0              \* "nf not specified" (Python None)
NfRange == 3..6

Max(a, b) == IF a >= b THEN a ELSE b
Min(a, b) == IF a <= b THEN a ELSE b
Abs(a) == IF a >= 0 THEN a ELSE -a

Seg(o, t, nf) == [kind |-> "seg", origin |-> o, target |-> t, nf |-> nf]
Mat(s, hq, inv) == [kind |-> "mat", scale |-> s, hq |-> hq, inverse |-> inv]

-----------------------------------------------------------------------------
(* Part 1: transcription                                                       *)

Walls(ms) == <<0>> \o ms \o <<INF>>

IsMonotoneInc(w) == \A i \in 1..(Len(w) - 1) : w[i] <= w[i + 1]
IsMonotoneDec(w) == \A i \in 1..(Len(w) - 1) : w[i] >= w[i + 1]

(* numpy.digitize(x, bins, right=False): for increasing bins the number of bins <= x; *)
(* for decreasing bins len - #(bins > x) ... eko's walls start at 0 and end at inf, so *)
(* a monotone wall list is increasing (or constant, impossible as 0 # inf).            *)
DigitizeDefined(w) == IsMonotoneInc(w) \/ IsMonotoneDec(w)
Digitize(x, w) == Cardinality({i \in 1..Len(w) : w[i] <= x})

NfDefault(mu, ms) == 2 + Digitize(mu, Walls(ms))
NfDefaultDefined(ms) == DigitizeDefined(Walls(ms))

Normalize(pt, ms) == IF pt[2] # NoNf THEN pt ELSE <<pt[1], NfDefault(pt[1], ms)>>
NormalizeDefined(pt, ms) == pt[2] # NoNf \/ NfDefaultDefined(ms)

(* Python slice w[a:b:rc] for rc in {1,-1} with 0 <= a,b <= len (0-based) -> 1-based *)
Slice(w, a, b, rc) ==
  IF rc = 1 THEN [k \in 1..(b - a) |-> w[a + k]]
            ELSE [k \in 1..(a - b) |-> w[a - k + 2]]

Path(ms, origin, target) ==
  LET o == Normalize(origin, ms)
      t == Normalize(target, ms)
      nf0 == o[2]
      nff == t[2]
      down == nff < nf0
      rc == IF down THEN -1 ELSE 1
      shift == IF down THEN -3 ELSE -2
      bnd == <<o[1]>> \o Slice(Walls(ms), nf0 + shift, nff + shift, rc) \o <<t[1]>>
  IN [i \in 1..(Len(bnd) - 1) |-> Seg(bnd[i], bnd[i + 1], nf0 + (i - 1) * rc)]

IsDownwardPath(p) ==
  IF Len(p) = 1 THEN p[1].origin > p[1].target ELSE p[2].nf < p[1].nf

MatchedPath(ms, origin, target) ==
  LET p == Path(ms, origin, target)
      inv == IsDownwardPath(p)
  IN [i \in 1..(2 * Len(p) - 1) |->
        IF i % 2 = 1 THEN p[(i + 1) \div 2]
        ELSE LET a == p[i \div 2]
                 b == p[i \div 2 + 1]
             IN Mat(a.target, Max(a.nf, b.nf), inv)]

FlavorShift(isDownward) == IF isDownward THEN 4 ELSE 3

-----------------------------------------------------------------------------
(* Part 2: C19 -- what a path must be, independent of how it is computed        *)

(* Default flow: three flavours below the charm matching scale, one more for    *)
(* every matching scale reached (sorted scales; undefined otherwise).           *)
DefaultNf(mu, ms) == 3 + Cardinality({q \in 1..3 : ms[q] <= mu})
Sorted(ms) == ms[1] <= ms[2] /\ ms[2] <= ms[3]

(* matching scale of the quark that distinguishes nf-1 from nf flavours *)
QuarkScale(ms, nf) == ms[nf - 3]

ExpectedNf(pt, ms) == IF pt[2] # NoNf THEN pt[2] ELSE DefaultNf(pt[1], ms)

C19_Start(ms, origin, p) ==
  /\ Len(p) >= 1
  /\ p[1].origin = origin[1]
  /\ p[1].nf = ExpectedNf(origin, ms)
C19_End(ms, target, p) ==
  /\ p[Len(p)].target = target[1]
  /\ p[Len(p)].nf = ExpectedNf(target, ms)
C19_Contiguous(p) == \A i \in 1..(Len(p) - 1) : p[i].target = p[i + 1].origin
C19_UnitSteps(p) ==
  \/ \A i \in 1..(Len(p) - 1) : p[i + 1].nf = p[i].nf + 1
  \/ \A i \in 1..(Len(p) - 1) : p[i + 1].nf = p[i].nf - 1
C19_OnWalls(ms, p) ==
  \A i \in 1..(Len(p) - 1) : p[i].target = QuarkScale(ms, Max(p[i].nf, p[i + 1].nf))
C19_Minimal(ms, origin, target, p) ==
  Len(p) = Abs(ExpectedNf(target, ms) - ExpectedNf(origin, ms)) + 1
C19_AllSegments(p) == \A i \in 1..Len(p) : p[i].kind = "seg" /\ p[i].nf \in NfRange

C19_WellFormed(ms, origin, target, p) ==
  /\ C19_AllSegments(p)
  /\ C19_Start(ms, origin, p)
  /\ C19_End(ms, target, p)
  /\ C19_Contiguous(p)
  /\ C19_UnitSteps(p)
  /\ C19_OnWalls(ms, p)
  /\ C19_Minimal(ms, origin, target, p)

(* which clause fails (for diagnostics) *)
C19_Failing(ms, origin, target, p) ==
  IF Len(p) < 1 THEN "empty"
  ELSE IF ~C19_AllSegments(p) THEN "segments"
  ELSE IF ~C19_Start(ms, origin, p) THEN "start"
  ELSE IF ~C19_End(ms, target, p) THEN "end"
  ELSE IF ~C19_Contiguous(p) THEN "contiguous"
  ELSE IF ~C19_UnitSteps(p) THEN "unit-steps"
  ELSE IF ~C19_OnWalls(ms, p) THEN "on-walls"
  ELSE IF ~C19_Minimal(ms, origin, target, p) THEN "minimal"
  ELSE "none"

(* matched path: segments of p interleaved with one matching per joint *)
C19_Matched(p, m) ==
  /\ Len(m) = 2 * Len(p) - 1
  /\ \A i \in 1..Len(p) : m[2 * i - 1] = p[i]
  /\ \A i \in 1..(Len(p) - 1) :
       LET x == m[2 * i] IN
       /\ x.kind = "mat"
       /\ x.scale = p[i].target
       /\ x.hq = Max(p[i].nf, p[i + 1].nf)
       /\ x.inverse = (p[i + 1].nf < p[i].nf)

(* Lemmas used by other modules *)
(* joints of a path: the sequence of (scale, hq, inverse) *)
Joints(p) == [i \in 1..(Len(p) - 1) |->
                <<p[i].target, Max(p[i].nf, p[i + 1].nf), p[i + 1].nf < p[i].nf>>]

(* C06 structural half: splitting a path at an intermediate point m whose nf lies  *)
(* between origin and target nf yields the same joints                              *)
PathConcat(ms, o, m, t) ==
  LET nfo == o[2]  nfm == m[2]  nft == t[2] IN
  ((nfo <= nfm /\ nfm <= nft) \/ (nfo >= nfm /\ nfm >= nft)) =>
     Joints(Path(ms, o, m)) \o Joints(Path(ms, m, t)) = Joints(Path(ms, o, t))

(* targets with the same nf share all but the last segment *)
SharedPrefix(ms, o, t1, t2) ==
  t1[2] = t2[2] =>
    LET p1 == Path(ms, o, t1)  p2 == Path(ms, o, t2) IN
    /\ Len(p1) = Len(p2)
    /\ \A i \in 1..(Len(p1) - 1) : p1[i] = p2[i]
    /\ p1[Len(p1)].origin = p2[Len(p2)].origin
=============================================================================
