CONSTANTS
  DestMustExist = TRUE
  ExampleNumpy = FALSE
INIT Init
NEXT Next
INVARIANT TypeOK
INVARIANT InvGen
INVARIANT InvRun
INVARIANT InvRefused
INVARIANT InvFrame
INVARIANT InvInspect
CHECK_DEADLOCK FALSE
