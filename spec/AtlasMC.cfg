CONSTANT INF = 6
INIT Init
NEXT Next
INVARIANT InvWellFormed
INVARIANT InvMatched
INVARIANT InvDefaultFlow
INVARIANT InvUnsorted
CHECK_DEADLOCK FALSE
