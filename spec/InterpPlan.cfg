CONSTANTS UpperClosed = TRUE FirstClosed = TRUE
INIT Init
NEXT Next
INVARIANT InvPrint
CHECK_DEADLOCK FALSE
