---------------------------- MODULE FlavorBlocks ----------------------------
(* C01 and C52 on the stored flavour-basis operator O[a, j, b, k] (a, b over the   *)
(* 14 PIDs 22, -6..-1, 21, 1..6).  The harness projects every 14 x 14 block        *)
(* O[a, :, b, :] exactly to 0 (all zeros), 1 (exactly the identity matrix) or 2     *)
(* (anything else); the predicates are decided here.                                *)
(*                                                                                *)
(* The cell domains (which configurations must be exercised) are enumerated by TLC:  *)
(*   UnityCells    nf0 x QCD order x QED order x scale-variation scheme x xif=1?      *)
(*                 x polarized x time-like, with the branch the runner must take      *)
(*   InactiveCells path shape (fixed / up / down) x nf range x QED                     *)
EXTENDS Naturals, Integers, Sequences, FiniteSets, TLC

Pids == <<22, -6, -5, -4, -3, -2, -1, 21, 1, 2, 3, 4, 5, 6>>
Idx(p) == CHOOSE j \in 1..14 : Pids[j] = p
Partons == {Pids[j] : j \in 2..14}

(* ---- C01 ---- *)
UnityCells == [nf0 : 3..6, qcd : 1..4, qed : 0..2, sv : {"none", "expo", "expanded"},
               xifOne : BOOLEAN, pol : BOOLEAN, tl : BOOLEAN]
(* the statement excludes the expanded scheme with a non-unit ratio *)
UnityApplies(c) == ~(c.sv = "expanded" /\ ~c.xifOne)
(* Operator.compute: coincident scales take the unity shortcut unless the expanded      *)
(* factor K has to be applied (expanded, xif # 1, final segment)                         *)
TakesShortcut(c) == ~(c.sv = "expanded" /\ ~c.xifOne)
ShortcutConsistent == \A c \in UnityCells : UnityApplies(c) => TakesShortcut(c)

C01_Blocks(qed, b) ==
  \A i \in 1..14 : \A j \in 1..14 :
     b[i][j] = IF i # j THEN 0
               ELSE IF Pids[i] = 22 THEN (IF qed THEN 1 ELSE 0)
               ELSE 1
C01_Failing(qed, b) ==
  IF \E i \in 2..14 : b[i][i] # 1 THEN "parton-not-mapped-onto-itself"
  ELSE IF \E i \in 2..14 : \E j \in 2..14 : i # j /\ b[i][j] # 0 THEN "parton-mixing"
  ELSE IF qed /\ b[1][1] # 1 THEN "photon-not-identity-with-qed"
  ELSE IF ~qed /\ (\E j \in 1..14 : b[1][j] # 0 \/ b[j][1] # 0) THEN "photon-not-decoupled-in-qcd"
  ELSE IF qed /\ (\E j \in 2..14 : b[1][j] # 0 \/ b[j][1] # 0) THEN "photon-mixing"
  ELSE "none"

(* ---- C52 ---- *)
InactiveCells == {c \in [shape : {"fixed", "up", "down"}, nfLo : 3..6, nfHi : 3..6, qed : BOOLEAN] :
                    /\ c.nfLo <= c.nfHi
                    /\ (c.shape = "fixed") = (c.nfLo = c.nfHi)
                    /\ c.nfHi <= 5}           \* at least the top quark is never active
Inactive(nfMax) == {q \in 4..6 : q > nfMax}
C52_Quark(b, q) ==
  LET iq == Idx(q)  ia == Idx(-q) IN
  /\ b[iq][iq] = 1 /\ b[ia][ia] = 1
  /\ \A j \in 1..14 : (j # iq => b[iq][j] = 0 /\ b[j][iq] = 0)
  /\ \A j \in 1..14 : (j # ia => b[ia][j] = 0 /\ b[j][ia] = 0)
C52_Blocks(nfMax, b) == \A q \in Inactive(nfMax) : C52_Quark(b, q)
C52_Failing(nfMax, b) ==
  LET bad == {q \in Inactive(nfMax) : ~C52_Quark(b, q)} IN
  IF bad = {} THEN "none"
  ELSE LET q == CHOOSE q \in bad : TRUE IN
       IF b[Idx(q)][Idx(q)] # 1 \/ b[Idx(-q)][Idx(-q)] # 1 THEN "inactive-quark-not-carried-with-weight-one"
       ELSE "inactive-quark-coupled-to-other-flavours"
=============================================================================
