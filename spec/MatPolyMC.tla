----------------------------- MODULE MatPolyMC -----------------------------
(* B1 for C22.  Initial states = instances:                                   *)
(*  kind "ome":  every triple of 2x2 matrices over {0,1} (4096): the expanded  *)
(*               backward operator transcribed from build_ome equals the       *)
(*               inverse derived order by order and satisfies the truncated    *)
(*               product law on both sides, for every matching order 0..3;     *)
(*  kind "ome3": 3x3 integer matrices from a fixed non-commuting family;        *)
(*  kind "dec":  decoupling tables c11 in -2..2, the other eight entries in      *)
(*               {0,1}: the transcribed invert_matching_coeffs is the           *)
(*               composition inverse through every order 1..4;                  *)
(*  kind "mass": tables with a vanishing first row (the mass tables): the same   *)
(*               function also gives the reciprocal factor.                      *)
(* Variant # "faithful" changes the transcription (vacuity guards).             *)
EXTENDS MatPoly
CONSTANT Variant
VARIABLE x

B01 == {0, 1}
M2 == {<< <<a, b>>, <<c, d>> >> : a \in B01, b \in B01, c \in B01, d \in B01}
E3(r, c) == [i \in 1..3 |-> [j \in 1..3 |-> IF i = r /\ j = c THEN 1 ELSE 0]]
P3 == << <<0, 1, 0>>, <<0, 0, 1>>, <<1, 0, 0>> >>
U3 == << <<1, 2, 0>>, <<0, 1, -1>>, <<0, 0, 1>> >>
L3 == << <<1, 0, 0>>, <<-1, 2, 0>>, <<3, 1, -2>> >>
M3 == {E3(1, 2), E3(2, 1), E3(2, 3), P3, U3, L3}
M3b == {E3(3, 1), U3, L3}

IntTable(c11, c20, c21, c22, c30, c31, c32, c33) ==
  LET q(n) == <<n, 1>> IN
  << <<q(0), q(0), q(0), q(0)>>, <<q(0), q(c11), q(0), q(0)>>,
     <<q(c20), q(c21), q(c22), q(0)>>, <<q(c30), q(c31), q(c32), q(c33)>> >>

(* Seeds are the initial states; each seed expands to its share of the instances  *)
(* in one step, so that the 16 TLC workers share the work.                        *)
MassC11 == IF Variant = "mass_c11" THEN {1} ELSE {0}
Seeds ==
  [kind : {"seed"}, of : {"ome"}, A1 : M2, c : {0}, e : {0}] \cup
  [kind : {"seed"}, of : {"ome3"}, A1 : M3, c : {0}, e : {0}] \cup
  [kind : {"seed"}, of : {"dec"}, A1 : {<<>>}, c : -2..2, e : B01] \cup
  [kind : {"seed"}, of : {"mass"}, A1 : {<<>>}, c : MassC11, e : -1..1]
Init == x \in Seeds
Next ==
  /\ x.kind = "seed"
  /\ \/ /\ x.of = "ome"
         /\ x' \in [kind : {"ome"}, A1 : {x.A1}, A2 : M2, A3 : M2]
      \/ /\ x.of = "ome3"
         /\ x' \in [kind : {"ome3"}, A1 : {x.A1}, A2 : M3, A3 : M3b]
      \/ /\ x.of \in {"dec", "mass"}
         /\ \E c21 \in B01, c22 \in B01, c30 \in B01, c31 \in B01, c32 \in B01, c33 \in B01 :
               x' = [kind |-> x.of, T |-> IntTable(x.c, x.e, c21, c22, c30, c31, c32, c33)]

(* build_ome variants *)
Expanded(A, n) ==
  LET d == Len(A[1])
      b3 == CASE Variant = "commuted" ->
                  MSumSeq(d, << MNeg(A[3]), MScale(QI(2), MMul(A[1], A[2])), MNeg(MPow(A[1], 3)) >>)
              [] Variant = "cube_sign" ->
                  MSumSeq(d, << MNeg(A[3]), MMul(A[1], A[2]), MMul(A[2], A[1]), MPow(A[1], 3) >>)
              [] OTHER -> ExpandedTranscribed(A, n)[4]
      E == ExpandedTranscribed(A, n)
  IN  << E[1], E[2], E[3], IF n >= 3 THEN b3 ELSE E[4] >>

Invert(T) ==
  LET I == InvertTranscribed(T) IN
  IF Variant = "reciprocal22"
  THEN [I EXCEPT ![3][3] = QSub(QMul(TableAt(T, 1, 1), TableAt(T, 1, 1)), TableAt(T, 2, 2))]
  ELSE I

IsOme == x.kind \in {"ome", "ome3"}
As == << MOfInt(x.A1), MOfInt(x.A2), MOfInt(x.A3) >>
(* The law is checked at the highest order; the lower orders follow because the  *)
(* order-n operators are the truncations of the order-3 ones (InvTruncation) and  *)
(* the coefficients of a product up to a^n depend on the factors up to a^n only.   *)
InvExpandedLaw == IsOme => C22_TruncatedInverse(Forward(As, 3), Expanded(As, 3), 3)
InvTruncation == IsOme => \A n \in 0..2 :
                    /\ SEq(Expanded(As, n), STrunc(Expanded(As, 3), n))
                    /\ SEq(Forward(As, n), STrunc(Forward(As, 3), n))
InvExpandedDerived == IsOme => SEq(Expanded(As, 3), DerivedInverse(Forward(As, 3), 3))
InvDecoupling == x.kind = "dec" => C22_CouplingInverse(x.T, Invert(x.T), 3)
InvMass == x.kind = "mass" => C22_MassInverse(x.T, Invert(x.T), 3)
=============================================================================
