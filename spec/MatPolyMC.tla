----------------------------- MODULE MatPolyMC -----------------------------
(* B1 for C22.  Initial states = instances:                                   *)
(*  kind "ome":  every triple of 2x2 matrices over {0,1} (4096): the expanded  *)
(*               backward operator transcribed from build_ome equals the       *)
(*               inverse derived order by order and satisfies the truncated    *)
(*               product law on both sides, for every matching order 0..3;     *)
(*  kind "ome3": 3x3 integer matrices from a fixed non-commuting family;        *)
(*  kind "dec":  decoupling tables c11 in -2..2, the other eight entries in      *)
(*               {0,1}: the transcribed invert_matching_coeffs is the           *)
(*               composition inverse through every order 1..4;                  *)
(*  kind "mass": tables with a vanishing first row (the mass tables): the same   *)
(*               function also gives the reciprocal factor.                      *)
(* Variant # "faithful" changes the transcription (vacuity guards).             *)
EXTENDS MatPoly
CONSTANT Variant, Tier
VARIABLE x

B01 == {0, 1}
M2 == {<< <<a, b>>, <<c, d>> >> : a \in B01, b \in B01, c \in B01, d \in B01}
E3(r, c) == [i \in 1..3 |-> [j \in 1..3 |-> IF i = r /\ j = c THEN 1 ELSE 0]]
P3 == << <<0, 1, 0>>, <<0, 0, 1>>, <<1, 0, 0>> >>
U3 == << <<1, 2, 0>>, <<0, 1, -1>>, <<0, 0, 1>> >>
L3 == << <<1, 0, 0>>, <<-1, 2, 0>>, <<3, 1, -2>> >>
M3 == {E3(1, 2), E3(2, 1), E3(2, 3), P3, U3, L3}
M3b == {E3(3, 1), U3, L3}

IntTable(c11, c20, c21, c22, c30, c31, c32, c33) ==
  LET q(n) == <<n, 1>> IN
  << <<q(0), q(0), q(0), q(0)>>, <<q(0), q(c11), q(0), q(0)>>,
     <<q(c20), q(c21), q(c22), q(0)>>, <<q(c30), q(c31), q(c32), q(c33)>> >>

(* Domains.  The identities are polynomial in the matrix entries: of degree <= 3  *)
(* in each entry of A1 and affine in A2 and in A3 (each A_k carries weight k and   *)
(* the total weight is <= 3).  Hence A2, A3 in {0} + unit matrices is complete for  *)
(* A2, A3, and a 4-point grid -1..2 per entry of A1 (thorough) is complete for A1:  *)
(* the thorough run proves the law for all 2x2 rational matrices.  The same weight  *)
(* argument makes the decoupling law affine in (c2x, c3x) jointly and cubic in c11. *)
G4 == -1..2
M2wide == {<< <<a, b>>, <<c, d>> >> : a \in G4, b \in G4, c \in G4, d \in G4}
Z2 == << <<0, 0>>, <<0, 0>> >>
Units2 == {Z2, << <<1, 0>>, <<0, 0>> >>, << <<0, 1>>, <<0, 0>> >>, << <<0, 0>>, <<1, 0>> >>, << <<0, 0>>, <<0, 1>> >>}
OmeA1 == IF Tier = "quick" THEN M2 ELSE M2wide
Vec7 == IF Tier = "quick"
        THEN {[k \in 1..7 |-> 0]} \cup {[k \in 1..7 |-> IF k = m THEN 1 ELSE 0] : m \in 1..7}
        ELSE [1..7 -> B01]
MassC11 == IF Variant = "mass_c11" THEN {1} ELSE {0}
Seeds ==
  [kind : {"seed"}, of : {"ome"}, A1 : OmeA1, c : {0}] \cup
  (IF Tier = "quick" THEN {} ELSE [kind : {"seed"}, of : {"ome01"}, A1 : M2, c : {0}]) \cup
  [kind : {"seed"}, of : {"ome3"}, A1 : M3, c : {0}] \cup
  [kind : {"seed"}, of : {"dec"}, A1 : {<<>>}, c : -2..2] \cup
  [kind : {"seed"}, of : {"mass"}, A1 : {<<>>}, c : MassC11]
(* a variant run explores only the kind of instance the variant concerns          *)
KindsOf == CASE Variant \in {"commuted", "cube_sign"} -> {"ome", "ome01", "ome3"}
             [] Variant = "reciprocal22" -> {"dec"}
             [] Variant = "mass_c11" -> {"mass"}
             [] OTHER -> {"ome", "ome01", "ome3", "dec", "mass"}
Init == x \in {s \in Seeds : s.of \in KindsOf}
Next ==
  /\ x.kind = "seed"
  /\ \/ /\ x.of = "ome"
         /\ x' \in [kind : {"ome"}, A1 : {x.A1}, A2 : Units2, A3 : Units2]
      \/ /\ x.of = "ome01"
         /\ x' \in [kind : {"ome"}, A1 : {x.A1}, A2 : M2, A3 : M2]
      \/ /\ x.of = "ome3"
         /\ x' \in [kind : {"ome3"}, A1 : {x.A1}, A2 : (IF Tier = "quick" THEN M3b ELSE M3), A3 : (IF Tier = "quick" THEN {E3(3, 1), L3} ELSE M3b)]
      \/ /\ x.of \in {"dec", "mass"}
         /\ \E v \in Vec7 :
               x' = [kind |-> x.of, T |-> IntTable(x.c, v[1], v[2], v[3], v[4], v[5], v[6], v[7])]

(* build_ome variants *)
Expanded(A, n) ==
  LET d == Len(A[1])
      b3 == CASE Variant = "commuted" ->
                  MSumSeq(d, << MNeg(A[3]), MScale(QI(2), MMul(A[1], A[2])), MNeg(MPow(A[1], 3)) >>)
              [] Variant = "cube_sign" ->
                  MSumSeq(d, << MNeg(A[3]), MMul(A[1], A[2]), MMul(A[2], A[1]), MPow(A[1], 3) >>)
              [] OTHER -> ExpandedTranscribed(A, n)[4]
      E == ExpandedTranscribed(A, n)
  IN  << E[1], E[2], E[3], IF n >= 3 THEN b3 ELSE E[4] >>

Invert(T) ==
  LET I == InvertTranscribed(T) IN
  IF Variant = "reciprocal22"
  THEN [I EXCEPT ![3][3] = QSub(QMul(TableAt(T, 1, 1), TableAt(T, 1, 1)), TableAt(T, 2, 2))]
  ELSE I

IsOme == x.kind \in {"ome", "ome3"}
As == << MOfInt(x.A1), MOfInt(x.A2), MOfInt(x.A3) >>
(* The law is checked at the highest order; the lower orders follow because the  *)
(* order-n operators are the truncations of the order-3 ones (InvTruncation) and  *)
(* the coefficients of a product up to a^n depend on the factors up to a^n only.   *)
InvExpandedLaw == IsOme => C22_TruncatedInverse(Forward(As, 3), Expanded(As, 3), 3)
InvTruncation == IsOme => \A n \in 0..2 :
                    /\ SEq(Expanded(As, n), STrunc(Expanded(As, 3), n))
                    /\ SEq(Forward(As, n), STrunc(Forward(As, 3), n))
InvExpandedDerived == IsOme => SEq(Expanded(As, 3), DerivedInverse(Forward(As, 3), 3))
InvDecoupling == x.kind = "dec" => C22_CouplingInverse(x.T, Invert(x.T), 3)
InvMass == x.kind = "mass" => C22_MassInverse(x.T, Invert(x.T), 3)
=============================================================================
