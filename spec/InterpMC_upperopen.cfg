CONSTANTS S = 16 Families <- FamGuard
CONSTANTS UpperClosed = FALSE FirstClosed = TRUE
INIT InitAll
NEXT Next
INVARIANT InvC34
INVARIANT InvReject
CHECK_DEADLOCK FALSE
