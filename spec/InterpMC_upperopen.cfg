CONSTANTS S = 16 Step = 4 MinN = 2 MaxN = 4 Degrees = {1, 2, 3}
CONSTANTS UpperClosed = FALSE FirstClosed = TRUE
INIT InitGrids
NEXT Next
INVARIANT InvC34
INVARIANT InvReject
CHECK_DEADLOCK FALSE
