CONSTANT INF = 4
INIT Init
NEXT Next
INVARIANT InvConcat
INVARIANT InvShared
CHECK_DEADLOCK FALSE
