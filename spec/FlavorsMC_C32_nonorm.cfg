CONSTANT QedSectorMap = "unified"
CONSTANT DeltaRows = "orthogonalised"
CONSTANT NormalizeOut = FALSE
CONSTANT QcdOthCoef = "nf-1"
CONSTANT NormalizeProj = TRUE
INIT Init
NEXT Next
CHECK_DEADLOCK FALSE
INVARIANT InvC32Physical
