----------------------------- MODULE SplitPathTrace -----------------------------
EXTENDS SplitPath, Json, IOUtils, TLCExt
TLog == JsonDeserialize(IOEnv.TRACE_FILE)
VARIABLE i
Init == i = 1
Next == i <= Len(TLog) /\ i' = i + 1
Verdict(r) ==
  IF r.ev = "split"
  THEN IF r.cell \notin Cells THEN "CONF:cell-outside-domain"
       ELSE IF r.err # "" THEN "CONF:solve-raised:" \o r.err
       ELSE IF r.decFine < TolDecade /\ r.decFine < FloorDecade THEN "C06:split-path-differs-from-direct-evolution"
       ELSE IF ~C06_Composes(r.decFine, r.ratio100) THEN "C06:discrepancy-does-not-shrink-under-grid-refinement"
       ELSE "ok"
  ELSE IF r.ev = "coverage"
  THEN IF {r.cells[j] : j \in 1..Len(r.cells)} # Cells THEN "COVERAGE:cells" ELSE "ok"
  ELSE "CONF:unknown-record"
Inv == i <= Len(TLog) =>
         LET v == Verdict(TLog[i]) IN v = "ok" \/ PrintT(<<"BAD", i, v>>)
Post == TLCGet("stats").diameter = Len(TLog) + 1
=============================================================================
