CONSTANTS UpperClosed = TRUE FirstClosed = TRUE ContractFaithful = TRUE InputInverse = FALSE N = 2
INIT Init
NEXT Next
INVARIANT InvReshape
CHECK_DEADLOCK FALSE
