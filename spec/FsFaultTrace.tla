---------------------------- MODULE FsFaultTrace ----------------------------
(* B3 for C38.  Records:                                                        *)
(*  [ev |-> "effects", kind, steps]  the effects of a fault-free real session,    *)
(*       named in FsFault's vocabulary: it must have the shape of the modelled    *)
(*       close region (so that "every effect" of the enumeration is every step    *)
(*       of the model, and the permanent path is touched only there)              *)
(*  [ev |-> "outcome", kind, i, n, cls, raised, arc, retry]  one real run with     *)
(*       effect i (of n; cls = "effect" | "member" | "compute" | "kbdint" | "sysexit" | "genexit": *)
(*       the last three are interruptions at a computation step) failing            *)
(*       cls = "bulk": the i-th bulk transfer of the standard library fails (ENOSPC); world = "same" | "xdev":   *)
(*       where the temporary area lives relative to the output folder                *)
(*  [ev |-> "coverage", kind, cls, n, done]  which fault points were executed       *)
EXTENDS Naturals, Sequences, FiniteSets, Json, IOUtils, TLC, TLCExt
CONSTANT AtomicClose
TLog == JsonDeserialize(IOEnv.TRACE_FILE)
VARIABLE i
Init == i = 1
Next == i <= Len(TLog) /\ i' = i + 1

Initial(k) == IF k = "edit" THEN "prev" ELSE "absent"
NonTmp(s) == SelectSeq(s, LAMBDA x : x \notin {"tmp", "arcread"})
Expected == IF AtomicClose THEN <<"sideopen", "replace">> ELSE <<"unlink", "taropen">>
(* the repaired close may remove the sibling file in a finally clause *)
ShapeOk(s) == NonTmp(s) = Expected \/ (AtomicClose /\ NonTmp(s) = Expected \o <<"sideunlink">>)
TouchesArchiveOnlyInClose(s) ==
  \A j \in 1..Len(s) : s[j] \in {"unlink", "taropen", "replace", "renamefrom"} =>
      \E k \in 1..Len(s) : k < j /\ s[k] = "tmp"

Verdict(r) ==
  IF r.ev = "effects"
  THEN IF ~ShapeOk(r.steps) THEN "CONF:close-region-shape"
       ELSE IF ~TouchesArchiveOnlyInClose(r.steps) THEN "CONF:archive-touched-early"
       ELSE "ok"
  ELSE IF r.ev = "outcome"
  THEN IF r.raised = "" /\ r.arc # "new" THEN "C38:fault-swallowed-archive-" \o r.arc
       ELSE IF r.raised # "" /\ r.arc \notin {Initial(r.kind), "new"}
            THEN "C38:archive-" \o r.arc \o "-after-failure"
       ELSE IF r.cls = "pair" /\ r.arc2nd \notin {Initial(r.kind), "new"} THEN "C38:archive-" \o r.arc2nd \o "-after-second-failure"
       ELSE IF ~r.origIntact THEN "C38:source-archive-of-the-copy-damaged"
       ELSE IF ~r.retry THEN "C38:retry-failed"
       ELSE "ok"
  ELSE IF r.ev = "coverage"
  THEN IF {r.done[j] : j \in 1..Len(r.done)} # 1..r.n THEN "COVERAGE:fault-points-missing" ELSE "ok"
  ELSE "CONF:unknown-record"

Inv == i <= Len(TLog) =>
         LET v == Verdict(TLog[i]) IN v = "ok" \/ PrintT(<<"BAD", i, v>>)
Post == TLCGet("stats").diameter = Len(TLog) + 1
=============================================================================
