------------------------------- MODULE SvOrder -------------------------------
(* C51: scale-varied operators versus the central one.                          *)
(*  Cells (enumerated by TLC, every one must be measured):                        *)
(*    UnitCells   order x scheme x method class x path shape: at ratio 1 the        *)
(*                operator must be BITWISE the unvaried one                         *)
(*    OrderCells  order n x scheme x ratio side x polarisation: the relative         *)
(*                difference to the unvaried operator scales like a_s^k with          *)
(*                k >= n when the reference coupling is scaled down; the harness       *)
(*                reports 100 x the base-2 exponent of the finest pair                  *)
(*                (the larger of the pairs lambda = 1/16 -> 1/32 and 1/32 -> 1/64, so      *)
(*                that an accidental cancellation between two orders at one pair does     *)
(*                not matter); required >= 100 n - 35 (a violation of the working order    *)
(*                shows as 100 (n - 1) at every pair).  shape: within one patch, or          *)
(*                across a heavy-quark threshold upwards / downwards (the matching and       *)
(*                the coupling decoupling take part)                                         *)
EXTENDS Naturals, Integers, Sequences, FiniteSets, TLC
Schemes == {"expo", "expanded"}
UnitCells == [order : 1..4, scheme : Schemes, method : {"iterate-exact", "truncated", "decompose-exact", "perturbative-exact"},
              shape : {"single", "up", "down"}]
OrderCells == {c \in [order : 1..4, scheme : Schemes, side : {"below", "above"}, pol : BOOLEAN,
                         shape : {"single", "up", "down"}] : c.pol => c.order <= 3}
Required(c) == 100 * c.order - 35
C51_Unit(same) == same
C51_Order(c, e100) == e100 >= Required(c)
=============================================================================
