-------------------------------- MODULE IRat --------------------------------
(* Exact rational arithmetic for the interpolation / apply specifications.      *)
(*                                                                             *)
(* A rational is a pair <<n, d>> with d > 0 and gcd(|n|, d) = 1 (zero is <<0,1>>).*)
(* TLC integers are 32 bit and an overflow is an error (never a wrap), so        *)
(*   - products cancel crosswise BEFORE multiplying,                            *)
(*   - sums go through the least common multiple of the denominators,           *)
(*   - comparisons subtract first.                                              *)
(* An overflow therefore stops TLC (machinery error, exit 2), it can never turn *)
(* into a verdict.  JSON arrays [n, d] deserialise to exactly this shape.       *)
EXTENDS Integers, Sequences, TLC

(* TLC keeps [i \in S |-> e] as an unevaluated lambda and re-evaluates e on every  *)
(* application; Eager turns it into an explicit table once.                      *)
Eager(f) == TLCEval(f)

IAbs(a) == IF a >= 0 THEN a ELSE -a
IMax(a, b) == IF a >= b THEN a ELSE b
IMin(a, b) == IF a <= b THEN a ELSE b

RECURSIVE Gcd(_, _)
Gcd(a, b) == IF b = 0 THEN a ELSE Gcd(b, a % b)       \* a, b >= 0

IsRat(r) == /\ Len(r) = 2 /\ r[2] > 0 /\ Gcd(IAbs(r[1]), r[2]) = 1

RZero == <<0, 1>>
ROne == <<1, 1>>
RInt(k) == <<k, 1>>

(* n/d with d # 0, lowest terms *)
RNorm(n, d) ==
  IF n = 0 THEN RZero
  ELSE LET g == Gcd(IAbs(n), IAbs(d))
           s == IF d < 0 THEN -1 ELSE 1
       IN <<s * (n \div g), s * (d \div g)>>
RFrac(n, d) == RNorm(n, d)

RNeg(a) == <<-a[1], a[2]>>

RMul(a, b) ==
  IF a[1] = 0 \/ b[1] = 0 THEN RZero
  ELSE LET g1 == Gcd(IAbs(a[1]), b[2])
           g2 == Gcd(IAbs(b[1]), a[2])
       IN <<(a[1] \div g1) * (b[1] \div g2), (a[2] \div g2) * (b[2] \div g1)>>

RAdd(a, b) ==
  IF a[1] = 0 THEN b
  ELSE IF b[1] = 0 THEN a
  ELSE LET g == Gcd(a[2], b[2])
           l == (a[2] \div g) * b[2]
       IN RNorm(a[1] * (b[2] \div g) + b[1] * (a[2] \div g), l)

RSub(a, b) == RAdd(a, RNeg(b))
RInv(a) == IF a[1] > 0 THEN <<a[2], a[1]>> ELSE <<-a[2], -a[1]>>     \* a # 0
RDiv(a, b) == RMul(a, RInv(b))                                       \* b # 0

RSign(a) == IF a[1] > 0 THEN 1 ELSE IF a[1] < 0 THEN -1 ELSE 0
RLt(a, b) == RSign(RSub(a, b)) < 0
RLe(a, b) == RSign(RSub(a, b)) <= 0
RAbs(a) == <<IAbs(a[1]), a[2]>>

RECURSIVE RPow(_, _)
RPow(a, k) == IF k = 0 THEN ROne ELSE RMul(a, RPow(a, k - 1))        \* k >= 0

(* sum of f[i] over i \in lo..hi  (f a function or sequence of rationals) *)
RECURSIVE RSumRange(_, _, _)
RSumRange(f, lo, hi) == IF lo > hi THEN RZero ELSE RAdd(f[lo], RSumRange(f, lo + 1, hi))
RSumSeq(s) == LET t == Eager(s) IN RSumRange(t, 1, Len(t))

(* dot product of two sequences of rationals of equal length *)
RDot(u, v) == RSumSeq([i \in 1..Len(u) |-> RMul(u[i], v[i])])

(* integer vectors / small integer tensors: plain sums *)
RECURSIVE ISumRange(_, _, _)
ISumRange(f, lo, hi) == IF lo > hi THEN 0 ELSE f[lo] + ISumRange(f, lo + 1, hi)
ISumSeq(s) == LET t == Eager(s) IN ISumRange(t, 1, Len(t))
=============================================================================
