CONSTANTS S = 16 Step = 2 MinN = 2 MaxN = 5 Degrees = {1, 2, 3, 4}
CONSTANTS UpperClosed = TRUE FirstClosed = TRUE
INIT InitGrids
NEXT Next
INVARIANT InvC34
INVARIANT InvReject
CHECK_DEADLOCK FALSE
