CONSTANT QedSectorMap = "unified"
CONSTANT DeltaRows = "orthogonalised"
CONSTANT NormalizeOut = TRUE
CONSTANT QcdOthCoef = "nf-1"
CONSTANT NormalizeProj = FALSE
INIT Init
NEXT Next
CHECK_DEADLOCK FALSE
INVARIANT InvC46
