------------------------------ MODULE ApplyMC ------------------------------
(* B1 for C43/C42 on the design (N-point grid {1/4, 2/4, ..}):                    *)
(*  - every unit operator (a,j,b,k) applied to a non-symmetric input picks exactly *)
(*    the input entry (b,k) into the output entry (a,j)  (violated by the swapped   *)
(*    design: vacuity guard for the index order of the contraction);              *)
(*  - rotating and re-interpolating commute (the order in rotate_result is free);  *)
(*  - re-interpolation onto the grid itself is the identity;                       *)
(*  - the evolution / unified bases written from their meaning have pairwise       *)
(*    different rows, singlet and valence are what they mean.                      *)
(* Seeds (a) fan out in Next so that the workers share the states.                 *)
EXTENDS Apply
CONSTANT N          \* grid points
VARIABLES a, j, b, k
vars == <<a, j, b, k>>
Init == a \in 1..NF /\ j = 0 /\ b = 0 /\ k = 0
Next == /\ j = 0 /\ a' = a
        /\ j' \in 1..N /\ b' \in 1..NF /\ k' \in 1..N

Grid == Eager([i \in 1..N |-> RFrac(i, 4)])
Tgt == <<RFrac(3, 8), RFrac(1, 2)>>
UnitO == Eager([a1 \in 1..NF |-> Eager([j1 \in 1..N |-> Eager([b1 \in 1..NF |-> Eager([k1 \in 1..N |->
            IF a1 = a /\ j1 = j /\ b1 = b /\ k1 = k THEN 1 ELSE 0])])])])
(* a non-symmetric input: value 10 b1 + k1 at (b1, k1)                            *)
Input == Eager([b1 \in 1..NF |-> Eager([k1 \in 1..N |-> 10 * b1 + k1])])

InvContract ==
  j > 0 =>
  Contract(UnitO, Input, N) =
    [a1 \in 1..NF |-> [j1 \in 1..N |-> IF a1 = a /\ j1 = j THEN 10 * b + k ELSE 0]]

(* rotation and re-interpolation commute on the result (one rotation per state)   *)
InvCommute ==
  (j > 0 /\ b = a) =>
  LET c == Contract(UnitO, Input, N)
      R == GetInterpolation(Grid, N - 1, Tgt)
      rot == IF a % 2 = 0 THEN EvolMatrix ELSE UniMatrix
      viaRot == ReinterpV(R, Rotate(rot, c, N))
      viaInt == ReinterpV(R, c)
  IN \A a1 \in 1..NF : \A t \in 1..Len(Tgt) :
        viaRot[a1][t] = RSumSeq(Eager([b1 \in 1..NF |-> RMul(RInt(rot[a1][b1]), viaInt[b1][t])]))

InvSameGrid ==
  (j > 0 /\ b = a) =>
  LET c == Contract(UnitO, Input, N) IN
  Applied(UnitO, Input, Grid, N - 1, Grid, FALSE, FALSE) = AsRat(c)

(* C42 on the design, 3 flavours: the transcribed flavor_reshape of a unit operator  *)
(* with unimodular integer rotations commutes with applying (refuted when the input *)
(* side is multiplied by inputpids instead of its inverse)                          *)
T3 == <<<<1, 1, 0>>, <<0, 1, -1>>, <<2, 0, 1>>>>
U3 == <<<<1, 2, 0>>, <<0, 1, 0>>, <<1, 0, -1>>>>
U3inv == <<<<1, -2, 0>>, <<0, 1, 0>>, <<1, -2, -1>>>>
F3 == <<<<1, -2>>, <<3, 1>>, <<-1, 2>>>>
InvReshape ==
  (j > 0 /\ a <= 3 /\ b <= 3) =>
  LET O3 == Eager([a1 \in 1..3 |-> Eager([j1 \in 1..N |-> Eager([b1 \in 1..3 |-> Eager([k1 \in 1..N |->
               IF a1 = a /\ j1 = j /\ b1 = b /\ k1 = k THEN 1 ELSE 0])])])])
  IN /\ MatMul(U3, U3inv) = <<<<1, 0, 0>>, <<0, 1, 0>>, <<0, 0, 1>>>>
     /\ C42_FlavorCommutesN(O3, FlavorReshapeN(O3, T3, U3, U3inv, 3, N), T3, U3, F3, 3, N)

InvBases ==
  (j = 0 /\ a = 1) =>
  /\ \A r1, r2 \in 1..NF : r1 # r2 => EvolMatrix[r1] # EvolMatrix[r2] /\ UniMatrix[r1] # UniMatrix[r2]
  /\ \A p \in 1..NF : EvolMatrix[2][p] = (IF Pids[p] \in {21, 22} THEN 0 ELSE 1)
  /\ \A p \in 1..NF : UniMatrix[5][p] = (IF Pids[p] \in {21, 22} THEN 0 ELSE IF Pids[p] > 0 THEN 1 ELSE -1)
=============================================================================
