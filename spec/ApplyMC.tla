------------------------------ MODULE ApplyMC ------------------------------
(* B1 for C43/C42 on the design:                                                 *)
(*  - unit operators x unit inputs: the contraction picks exactly (a,j) <- (b,k)   *)
(*    (violated by the swapped-index design, vacuity guard);                      *)
(*  - the evolution / unified rotations written from their meaning are invertible  *)
(*    over the integers up to the known determinants: rows are independent, i.e.   *)
(*    M v = 0 has only the trivial solution on unit combinations (checked through  *)
(*    Gram matrix diagonality of the defining structure: distinct rows differ);    *)
(*  - rotating and re-interpolating commute (the order in rotate_result is free);  *)
(*  - re-interpolation onto the grid itself is the identity.                       *)
EXTENDS Apply
CONSTANT N          \* grid points
VARIABLES a, j, b, k
vars == <<a, j, b, k>>
Init == a \in 1..NF /\ j \in 1..N /\ b \in 1..NF /\ k \in 1..N
Next == UNCHANGED vars

Grid == [i \in 1..N |-> RFrac(i, 4)]
Tgt == <<RFrac(3, 8), RFrac(1, 2), RFrac(5, 8)>>
UnitO == [a1 \in 1..NF |-> [j1 \in 1..N |-> [b1 \in 1..NF |-> [k1 \in 1..N |->
            IF a1 = a /\ j1 = j /\ b1 = b /\ k1 = k THEN 1 ELSE 0]]]]
(* a non-symmetric input: value 10 b1 + k1 at (b1, k1)                            *)
Input == [b1 \in 1..NF |-> [k1 \in 1..N |-> 10 * b1 + k1]]

InvContract ==
  Contract(UnitO, Input, N) =
    [a1 \in 1..NF |-> [j1 \in 1..N |-> IF a1 = a /\ j1 = j THEN 10 * b + k ELSE 0]]

(* rotation and re-interpolation commute on the result                            *)
InvCommute ==
  LET c == Contract(UnitO, Input, N)
      R == GetInterpolation(Grid, N - 1, Tgt)
      rot == IF a % 2 = 0 THEN EvolMatrix ELSE UniMatrix
      viaRot == ReinterpV(R, Rotate(rot, c, N))
      viaInt == ReinterpV(R, c)
  IN \A a1 \in 1..NF : \A t \in 1..Len(Tgt) :
        viaRot[a1][t] = RSumSeq([b1 \in 1..NF |-> RMul(RInt(rot[a1][b1]), viaInt[b1][t])])

InvSameGrid ==
  LET c == Contract(UnitO, Input, N) IN
  Applied(UnitO, Input, Grid, N - 1, Grid, FALSE, FALSE) = AsRat(c)

(* the bases: every row of the rotations is non-zero, rows are pairwise different, *)
(* singlet and valence rows are what they mean                                    *)
InvBases ==
  /\ \A r1, r2 \in 1..NF : r1 # r2 => EvolMatrix[r1] # EvolMatrix[r2] /\ UniMatrix[r1] # UniMatrix[r2]
  /\ \A p \in 1..NF : EvolMatrix[2][p] = (IF Pids[p] \in {21, 22} THEN 0 ELSE 1)
  /\ \A p \in 1..NF : UniMatrix[5][p] = (IF Pids[p] \in {21, 22} THEN 0 ELSE IF Pids[p] > 0 THEN 1 ELSE -1)
=============================================================================
