------------------------------ MODULE ApplyPlan ------------------------------
(* The law plan of C42 (mode L): every planned cell is an initial state, printed. *)
EXTENDS Apply
VARIABLE cell
Init == cell \in C42Cells
Next == UNCHANGED cell
InvPrint == PrintT(<<"CELL", cell.mode, cell.deg, cell.side, cell.variant>>)
=============================================================================
