------------------------------- MODULE MatPoly -------------------------------
(* Truncated power series and polynomials with NON-COMMUTING coefficients:     *)
(* d x d matrices over the exact rationals of QRat (scalars are 1 x 1).         *)
(*   Mat      d x d matrix            M[r][c]                                   *)
(*   Ser      series in a             S[k+1] = coefficient of a^k, k = 0..N      *)
(*   BiPoly   polynomial in (a, L)    P[i+1][j+1] = coefficient of a^i L^j       *)
(* Products keep the order of the factors.  Every constructor is wrapped in     *)
(* TLCEval so that TLC builds values eagerly (no re-evaluation of lambdas).     *)
(*                                                                             *)
(* The second half holds the C22 predicates: the expanded backward matching     *)
(* operator transcribed from eko.evolution_operator.quad_ker.build_ome, the     *)
(* inverse DERIVED by the recursion B_k = - sum_j A_j B_(k-j), the truncated     *)
(* product law, the exact-inverse law, and reversion / reciprocal of the scalar  *)
(* decoupling series (couplings: composition inverse; masses: reciprocal).       *)
EXTENDS QRat, TLC

(* ------------------------------ matrices ---------------------------------- *)
MZero(d) == TLCEval([r \in 1..d |-> [c \in 1..d |-> Q0]])
MId(d) == TLCEval([r \in 1..d |-> [c \in 1..d |-> IF r = c THEN Q1 ELSE Q0]])
MDim(M) == Len(M)
MOfInt(M_0) == Let1(M_0, LAMBDA M :
 TLCEval([r \in 1..Len(M) |-> [c \in 1..Len(M) |-> QI(M[r][c])]]))
MOfJson(M_0) == Let1(M_0, LAMBDA M :
 TLCEval([r \in 1..Len(M) |-> [c \in 1..Len(M) |-> QOfJson(M[r][c])]]))
MAdd(A_0, B_0) == Let2(A_0, B_0, LAMBDA A, B :
 TLCEval([r \in 1..Len(A) |-> [c \in 1..Len(A) |-> QAdd(A[r][c], B[r][c])]]))
MNeg(A_0) == Let1(A_0, LAMBDA A :
 TLCEval([r \in 1..Len(A) |-> [c \in 1..Len(A) |-> QNeg(A[r][c])]]))
MSub(A, B) == MAdd(A, MNeg(B))
MScale(q_0, A_0) == Let2(q_0, A_0, LAMBDA q, A :
 TLCEval([r \in 1..Len(A) |-> [c \in 1..Len(A) |-> QMul(q, A[r][c])]]))
RECURSIVE MDot(_, _, _, _, _)
MDot(A, B, r, c, k) == IF k = 0 THEN Q0 ELSE QAdd(QMul(A[r][k], B[k][c]), MDot(A, B, r, c, k - 1))
MMul(A_0, B_0) == Let2(A_0, B_0, LAMBDA A, B :
 TLCEval([r \in 1..Len(A) |-> [c \in 1..Len(A) |-> MDot(A, B, r, c, Len(A))]]))
MIsZero(A_0) == Let1(A_0, LAMBDA A :
 \A r \in 1..Len(A) : \A c \in 1..Len(A) : A[r][c][1] = 0)
MEq(A_0, B_0) == Let2(A_0, B_0, LAMBDA A, B :
 \A r \in 1..Len(A) : \A c \in 1..Len(A) : A[r][c] = B[r][c])
MScalar(d, q) == MScale(q, MId(d))
RECURSIVE MPow(_, _)
MPow(A_0, k) == Let1(A_0, LAMBDA A :
 IF k = 0 THEN MId(Len(A)) ELSE MMul(A, MPow(A, k - 1)))

(* sum of a sequence of matrices (non-empty or with explicit dimension)        *)
RECURSIVE MSumSeq(_, _)
MSumSeq(d, s) == IF s = <<>> THEN MZero(d) ELSE MAdd(Head(s), MSumSeq(d, Tail(s)))

(* ------------------------------ series in a -------------------------------- *)
SZero(d, N) == TLCEval([k \in 1..(N + 1) |-> MZero(d)])
SOne(d, N) == TLCEval([k \in 1..(N + 1) |-> IF k = 1 THEN MId(d) ELSE MZero(d)])
SOrder(S) == Len(S) - 1
SAdd(S_0, T_0) == Let2(S_0, T_0, LAMBDA S, T :
 TLCEval([k \in 1..Len(S) |-> MAdd(S[k], T[k])]))
SScale(q_0, S_0) == Let2(q_0, S_0, LAMBDA q, S :
 TLCEval([k \in 1..Len(S) |-> MScale(q, S[k])]))
RECURSIVE SConv(_, _, _, _)
SConv(S, T, n, k) ==    \* sum_{j=0..k} S_j T_{n-j}
  IF k < 0 THEN MZero(Len(S[1])) ELSE MAdd(MMul(S[k + 1], T[n - k + 1]), SConv(S, T, n, k - 1))
SMul(S_0, T_0) == Let2(S_0, T_0, LAMBDA S, T :
 TLCEval([n \in 1..Len(S) |-> SConv(S, T, n - 1, n - 1)]))
SEq(S_0, T_0) == Let2(S_0, T_0, LAMBDA S, T :
 \A k \in 1..Len(S) : MEq(S[k], T[k]))
(* keep a^0..a^n, zero beyond                                                   *)
STrunc(S_0, n) == Let1(S_0, LAMBDA S :
 TLCEval([k \in 1..Len(S) |-> IF k - 1 <= n THEN S[k] ELSE MZero(Len(S[1]))]))
(* first index (power of a) at which two series differ, -1 if none             *)
SFirstDiff(S_0, T_0) == Let2(S_0, T_0, LAMBDA S, T :

  IF SEq(S, T) THEN -1 ELSE (CHOOSE k \in 0..(Len(S) - 1) :
        ~MEq(S[k + 1], T[k + 1]) /\ \A j \in 0..(k - 1) : MEq(S[j + 1], T[j + 1])))
RECURSIVE SPow(_, _)
SPow(S_0, k) == Let1(S_0, LAMBDA S :
 IF k = 0 THEN SOne(Len(S[1]), Len(S) - 1) ELSE SMul(S, SPow(S, k - 1)))

(* value of a series at a rational a: sum_k S_k a^k                            *)
RECURSIVE SEvalFrom(_, _, _)
SEvalFrom(S, a, k) ==   \* Horner from index k
  IF k = Len(S) THEN S[k] ELSE MAdd(S[k], MScale(a, SEvalFrom(S, a, k + 1)))
SEval(S_0, a_0) == Let2(S_0, a_0, LAMBDA S, a :
 SEvalFrom(S, a, 1))

(* --------------------------- polynomials in (a, L) -------------------------- *)
BZero(d, N) == TLCEval([i \in 1..(N + 1) |-> [j \in 1..(N + 1) |-> MZero(d)]])
BMono(d, N, i0, j0, M) ==
  TLCEval([i \in 1..(N + 1) |-> [j \in 1..(N + 1) |-> IF i = i0 + 1 /\ j = j0 + 1 THEN M ELSE MZero(d)]])
BOne(d, N) == BMono(d, N, 0, 0, MId(d))
BN(P) == Len(P) - 1
BD(P) == Len(P[1][1])
BAdd(P_0, R_0) == Let2(P_0, R_0, LAMBDA P, R :
 TLCEval([i \in 1..Len(P) |-> [j \in 1..Len(P) |-> MAdd(P[i][j], R[i][j])]]))
BScale(q_0, P_0) == Let2(q_0, P_0, LAMBDA q, P :
 TLCEval([i \in 1..Len(P) |-> [j \in 1..Len(P) |-> MScale(q, P[i][j])]]))
BNeg(P) == BScale(QI(-1), P)
BSub(P, R) == BAdd(P, BNeg(R))
(* All BiPolys used here are TRIANGULAR: the coefficient of a^i L^j vanishes for   *)
(* j > i (every logarithm comes with a power of the coupling).  BMul relies on it  *)
(* and never touches cells above the diagonal.                                     *)
RECURSIVE BConvJ(_, _, _, _, _, _)
BConvJ(P, R, i1, i2, j, j1) ==     \* sum_{j1'=0..j1} P[i1][j1'] R[i2][j-j1']
  IF j1 < 0 THEN MZero(BD(P))
  ELSE IF j1 > i1 \/ j - j1 > i2 THEN BConvJ(P, R, i1, i2, j, j1 - 1)
  ELSE MAdd(MMul(P[i1 + 1][j1 + 1], R[i2 + 1][j - j1 + 1]), BConvJ(P, R, i1, i2, j, j1 - 1))
RECURSIVE BConvI(_, _, _, _, _)
BConvI(P, R, i, j, i1) ==
  IF i1 < 0 THEN MZero(BD(P))
  ELSE MAdd(BConvJ(P, R, i1, i - i1, j, j), BConvI(P, R, i, j, i1 - 1))
BMul(P_0, R_0) == Let2(P_0, R_0, LAMBDA P, R :
 TLCEval([i \in 1..Len(P) |-> [j \in 1..Len(P) |->
    IF j > i THEN MZero(BD(P)) ELSE BConvI(P, R, i - 1, j - 1, i - 1)]]))
BEq(P_0, R_0) == Let2(P_0, R_0, LAMBDA P, R :
 \A i \in 1..Len(P) : \A j \in 1..Len(P) : MEq(P[i][j], R[i][j]))
(* d/dL and the integral from 0 to L                                            *)
BDiffL(P_0) == Let1(P_0, LAMBDA P :
 TLCEval([i \in 1..Len(P) |-> [j \in 1..Len(P) |->
                 IF j = Len(P) THEN MZero(BD(P)) ELSE MScale(QI(j), P[i][j + 1])]]))
BIntL(P_0) == Let1(P_0, LAMBDA P :
 TLCEval([i \in 1..Len(P) |-> [j \in 1..Len(P) |->
                 IF j = 1 THEN MZero(BD(P)) ELSE MScale(QF(1, j - 1), P[i][j - 1])]]))
BDiffA(P_0) == Let1(P_0, LAMBDA P :
 TLCEval([i \in 1..Len(P) |-> [j \in 1..Len(P) |->
                 IF i = Len(P) THEN MZero(BD(P)) ELSE MScale(QI(i), P[i + 1][j])]]))
(* multiply by a^s (shift up, truncated)                                        *)
BShiftA(P_0, s) == Let1(P_0, LAMBDA P :
 TLCEval([i \in 1..Len(P) |-> [j \in 1..Len(P) |->
                 IF i - s >= 1 THEN P[i - s][j] ELSE MZero(BD(P))]]))
RECURSIVE BPow(_, _)
BPow(P_0, k) == Let1(P_0, LAMBDA P :
 IF k = 0 THEN BOne(BD(P), BN(P)) ELSE BMul(P, BPow(P, k - 1)))
(* coefficient of a^i as a polynomial in L evaluated at rational l              *)
RECURSIVE BRowEval(_, _, _, _)
BRowEval(P_0, i, l_0, j) == Let2(P_0, l_0, LAMBDA P, l :
 IF j = Len(P) THEN P[i + 1][j] ELSE MAdd(P[i + 1][j], MScale(l, BRowEval(P, i, l, j + 1))))
BEvalL(P_0, l_0) == Let2(P_0, l_0, LAMBDA P, l :
 TLCEval([i \in 1..Len(P) |-> BRowEval(P, i - 1, l, 1)]))
(* substitute a scalar (1 x 1, commuting) polynomial G for a in the scalar P:      *)
(* P(G) = sum_i (sum_j P[i][j] L^j) G^i.  The L-polynomial multiplying G^i is not   *)
(* a triangular BiPoly, so it is applied row-wise (BMulRow).                        *)
RECURSIVE BRowConv(_, _, _, _, _, _)
BRowConv(P, i0, X, i, j, j1) ==   \* sum_{j1'=0..j1} P[i0][j1'] X[i][j-j1']
  IF j1 < 0 THEN MZero(BD(P))
  ELSE MAdd(MMul(P[i0 + 1][j1 + 1], X[i + 1][j - j1 + 1]), BRowConv(P, i0, X, i, j, j1 - 1))
BMulRow(P_0, i0, X_0) == Let2(P_0, X_0, LAMBDA P, X :
  TLCEval([i \in 1..Len(P) |-> [j \in 1..Len(P) |-> BRowConv(P, i0, X, i - 1, j - 1, j - 1)]]))
RECURSIVE BComposeFrom(_, _, _, _)
BComposeFrom(P_0, G_0, Gpow_0, i) == Let3(P_0, G_0, Gpow_0, LAMBDA P, G, Gpow :   \* Gpow = G^i
  IF i > BN(P) THEN BZero(BD(P), BN(P))
  ELSE BAdd(BMulRow(P, i, Gpow), BComposeFrom(P, G, BMul(Gpow, G), i + 1)))
BCompose(P, G) == BComposeFrom(P, G, BOne(BD(P), BN(P)), 0)
(* keep a-degree <= n                                                           *)
BTruncA(P_0, n) == Let1(P_0, LAMBDA P :
 TLCEval([i \in 1..Len(P) |-> [j \in 1..Len(P) |->
                 IF i - 1 <= n THEN P[i][j] ELSE MZero(BD(P))]]))
BFirstDiff(P_0, R_0) == Let2(P_0, R_0, LAMBDA P, R :
     \* <<i, j>> of a differing coefficient (lowest a-degree), <<-1,-1>> if none
  IF BEq(P, R) THEN <<-1, -1>>
  ELSE CHOOSE p \in (0..BN(P)) \X (0..BN(P)) :
        /\ ~MEq(P[p[1] + 1][p[2] + 1], R[p[1] + 1][p[2] + 1])
        /\ \A q \in (0..BN(P)) \X (0..BN(P)) :
              (q[1] < p[1] \/ (q[1] = p[1] /\ q[2] < p[2])) => MEq(P[q[1] + 1][q[2] + 1], R[q[1] + 1][q[2] + 1]))

(* ---------------- scalar polynomials in (a, L): cells are rationals ------------- *)
(* (the same algebra without the 1 x 1 matrix wrapping; triangular as above)          *)
PZero(N) == TLCEval([i \in 1..(N + 1) |-> [j \in 1..(N + 1) |-> Q0]])
PMonoA(N, i0) == TLCEval([i \in 1..(N + 1) |-> [j \in 1..(N + 1) |-> IF i = i0 + 1 /\ j = 1 THEN Q1 ELSE Q0]])
PAdd(P_0, R_0) == Let2(P_0, R_0, LAMBDA P, R :
  TLCEval([i \in 1..Len(P) |-> [j \in 1..Len(P) |-> QAdd(P[i][j], R[i][j])]]))
PScale(q_0, P_0) == Let2(q_0, P_0, LAMBDA q, P :
  TLCEval([i \in 1..Len(P) |-> [j \in 1..Len(P) |-> QMul(q, P[i][j])]]))
RECURSIVE PConvJ(_, _, _, _, _, _)
PConvJ(P, R, i1, i2, j, j1) ==
  IF j1 < 0 THEN Q0
  ELSE IF j1 > i1 \/ j - j1 > i2 \/ P[i1 + 1][j1 + 1][1] = 0 THEN PConvJ(P, R, i1, i2, j, j1 - 1)
  ELSE QAdd(QMul(P[i1 + 1][j1 + 1], R[i2 + 1][j - j1 + 1]), PConvJ(P, R, i1, i2, j, j1 - 1))
RECURSIVE PConvI(_, _, _, _, _)
PConvI(P, R, i, j, i1) ==
  IF i1 < 0 THEN Q0 ELSE QAdd(PConvJ(P, R, i1, i - i1, j, j), PConvI(P, R, i, j, i1 - 1))
PMul(P_0, R_0) == Let2(P_0, R_0, LAMBDA P, R :
  TLCEval([i \in 1..Len(P) |-> [j \in 1..Len(P) |-> IF j > i THEN Q0 ELSE PConvI(P, R, i - 1, j - 1, i - 1)]]))
PIntL(P_0) == Let1(P_0, LAMBDA P :
  TLCEval([i \in 1..Len(P) |-> [j \in 1..Len(P) |-> IF j = 1 THEN Q0 ELSE QMul(QF(1, j - 1), P[i][j - 1])]]))
PDiffA(P_0) == Let1(P_0, LAMBDA P :
  TLCEval([i \in 1..Len(P) |-> [j \in 1..Len(P) |-> IF i = Len(P) THEN Q0 ELSE QMul(QI(i), P[i + 1][j])]]))
PNeg(P) == PScale(QI(-1), P)
PSub(P, R) == PAdd(P, PNeg(R))
POne(N) == PMonoA(N, 0)
(* scalar polynomial -> d x d BiPoly (multiples of the identity)                       *)
BOfScalar(P_0, d) == Let1(P_0, LAMBDA P :
  TLCEval([i \in 1..Len(P) |-> [j \in 1..Len(P) |-> MScalar(d, P[i][j])]]))

(* ============================ C22: matching ================================= *)
(* Forward matching operator of order n built from the OME list A = <<A1,A2,A3>> *)
Forward(A_0, n) == Let1(A_0, LAMBDA A :

  LET d == Len(A[1]) IN
  TLCEval([k \in 1..4 |-> IF k = 1 THEN MId(d) ELSE IF k - 1 <= n THEN A[k - 1] ELSE MZero(d)]))

(* Expanded backward operator as written in build_ome (transcription)           *)
ExpandedTranscribed(A_0, n) == Let1(A_0, LAMBDA A :

  LET d == Len(A[1])
      b1 == MNeg(A[1])
      b2 == MAdd(MNeg(A[2]), MMul(A[1], A[1]))
      b3 == MSumSeq(d, << MNeg(A[3]), MMul(A[1], A[2]), MMul(A[2], A[1]),
                          MNeg(MMul(MMul(A[1], A[1]), A[1])) >>)
  IN  TLCEval(<< MId(d),
         IF n >= 1 THEN b1 ELSE MZero(d),
         IF n >= 2 THEN b2 ELSE MZero(d),
         IF n >= 3 THEN b3 ELSE MZero(d) >>))

(* Inverse derived in the specification: F B = 1 order by order                  *)
(*   B_0 = 1,  B_k = - sum_{j=1..k} F_j B_(k-j)                                   *)
RECURSIVE InvCoeff(_, _)
RECURSIVE InvSum(_, _, _)
InvSum(F_0, k, j) == Let1(F_0, LAMBDA F :
 IF j = 0 THEN MZero(Len(F[1])) ELSE MAdd(MMul(F[j + 1], InvCoeff(F, k - j)), InvSum(F, k, j - 1)))
InvCoeff(F, k) == IF k = 0 THEN MId(Len(F[1])) ELSE MNeg(InvSum(F, k, k))
DerivedInverse(F_0, n) == Let1(F_0, LAMBDA F :

  TLCEval([k \in 1..Len(F) |-> IF k - 1 <= n THEN InvCoeff(F, k - 1) ELSE MZero(Len(F[1]))]))

(* the property: Trunc_n(F B) = 1 and Trunc_n(B F) = 1                            *)
C22_TruncatedInverse(F_0, B_0, n) == Let2(F_0, B_0, LAMBDA F, B :

  LET one == SOne(Len(F[1]), Len(F) - 1) IN
  /\ SEq(STrunc(SMul(F, B), n), one)
  /\ SEq(STrunc(SMul(B, F), n), one))
C22_FirstBadPower(F_0, B_0, n) == Let2(F_0, B_0, LAMBDA F, B :

  LET one == SOne(Len(F[1]), Len(F) - 1)
      l == SFirstDiff(STrunc(SMul(F, B), n), one)
      r == SFirstDiff(STrunc(SMul(B, F), n), one)
  IN  IF l >= 0 /\ (r < 0 \/ l <= r) THEN l ELSE r)
(* exact inverse at a numeric coupling a                                        *)
C22_ExactInverse(F_0, a_0, X_0) == Let3(F_0, a_0, X_0, LAMBDA F, a, X :

  Let1(SEval(F, a), LAMBDA M : MEq(MMul(X, M), MId(Len(X))) /\ MEq(MMul(M, X), MId(Len(X)))))

(* ===================== C22: decoupling series (scalars) ===================== *)
(* A decoupling table c[n][l], n = 1..3, l = 0..n (JSON: 4 x 4 array of pairs,    *)
(* row 0 unused) denotes  up(a) = a + sum_n a^(n+1) sum_l c[n][l] L^l.            *)
S1(q) == <<<<q>>>>                     \* 1 x 1 matrix
TableAt(T, n, l) == QOfJson(T[n + 1][l + 1])
(* as BiPoly over (a, L), truncated at a^N                                       *)
CouplingPoly(T_0, N, nmax) == Let1(T_0, LAMBDA T :

  TLCEval([i \in 1..(N + 1) |-> [j \in 1..(N + 1) |->
     IF i = 2 /\ j = 1 THEN S1(Q1)
     ELSE IF i >= 3 /\ i - 2 <= nmax /\ i - 2 <= 3 /\ j - 1 <= i - 2 THEN S1(TableAt(T, i - 2, j - 1))
     ELSE S1(Q0)]]))
(* multiplicative factor 1 + sum_n a^n sum_l c[n][l] L^l (masses)                 *)
FactorPoly(T_0, N, nmax) == Let1(T_0, LAMBDA T :

  TLCEval([i \in 1..(N + 1) |-> [j \in 1..(N + 1) |->
     IF i = 1 /\ j = 1 THEN S1(Q1)
     ELSE IF i >= 2 /\ i - 1 <= nmax /\ i - 1 <= 3 /\ j - 1 <= i - 1 THEN S1(TableAt(T, i - 1, j - 1))
     ELSE S1(Q0)]]))
IdentityA(N) == BMono(1, N, 1, 0, S1(Q1))

(* down(up(a)) = a and up(down(a)) = a through a^(nmax+1)                         *)
C22_CouplingInverse(Tup, Tdown, nmax) ==
  LET N == nmax + 1
      U == CouplingPoly(Tup, N, nmax)
      D == CouplingPoly(Tdown, N, nmax)
  IN  /\ BEq(BCompose(D, U), IdentityA(N))
      /\ BEq(BCompose(U, D), IdentityA(N))
CouplingFirstBad(Tup, Tdown, nmax) ==
  LET N == nmax + 1
      U == CouplingPoly(Tup, N, nmax)
      D == CouplingPoly(Tdown, N, nmax)
      p == BFirstDiff(BCompose(D, U), IdentityA(N))
  IN  IF p[1] >= 0 THEN p ELSE BFirstDiff(BCompose(U, D), IdentityA(N))
(* masses: both factors multiply at the same coupling: up * down = 1 through a^nmax *)
C22_MassInverse(Tup, Tdown, nmax) ==
  BEq(BTruncA(BMul(FactorPoly(Tup, nmax, nmax), FactorPoly(Tdown, nmax, nmax)), nmax), BOne(1, nmax))
MassFirstBad(Tup, Tdown, nmax) ==
  BFirstDiff(BTruncA(BMul(FactorPoly(Tup, nmax, nmax), FactorPoly(Tdown, nmax, nmax)), nmax), BOne(1, nmax))

(* transcription of eko.couplings.invert_matching_coeffs (entries as rationals)   *)
InvertTranscribed(T_0) == Let1(T_0, LAMBDA T :

  LET c(n, l) == TableAt(T, n, l)
      z == Q0
      r1 == << z, QNeg(c(1, 1)), z, z >>
      r2 == << QNeg(c(2, 0)), QNeg(c(2, 1)),
               QSub(QScale(2, QMul(c(1, 1), c(1, 1))), c(2, 2)), z >>
      r3 == << QNeg(c(3, 0)),
               QSub(QScale(5, QMul(c(1, 1), c(2, 0))), c(3, 1)),
               QSub(QScale(5, QMul(c(1, 1), c(2, 1))), c(3, 2)),
               QSumSeq(<< QScale(-5, QPow(c(1, 1), 3)), QScale(5, QMul(c(1, 1), c(2, 2))), QNeg(c(3, 3)) >>) >>
  IN  << <<z, z, z, z>>, r1, r2, r3 >>)
=============================================================================
