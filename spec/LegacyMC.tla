------------------------------ MODULE LegacyMC ------------------------------
(* B1 for C41: legacy value combinations, one group of keys varied exhaustively at a *)
(* time around a default card (the relation is field-wise, so the groups are          *)
(* independent; the harness adds seeded full combinations).                            *)
EXTENDS Legacy
VARIABLE o
Default == [PTO |-> 1, qedo |-> 0, PTOm |-> 9, HQ |-> "POLE", ModEv |-> "EXA", ModSV |-> NoneS, inv |-> Absent,
            aqed |-> "v", aem |-> Absent, qedref |-> Absent, nfref |-> 5, nf0 |-> 0, q0 |-> 1,
            gridkey |-> "mugrid", grid |-> <<5>>, maxo |-> 10, fhm |-> Absent, n3lo |-> Absent]
G1 == {[Default EXCEPT !.PTO = a, !.qedo = b, !.PTOm = c, !.HQ = d, !.maxo = e] :
         a \in 0..3, b \in 0..2, c \in {9, 0, 1, 2, 3}, d \in {"POLE", "MSBAR", "BLUB"}, e \in {1, 10}}
G2 == {[Default EXCEPT !.ModEv = a, !.ModSV = b, !.inv = c, !.fhm = d, !.n3lo = e] :
         a \in {"EXA", "EXP", "TRN", "iterate-exact", "perturbative-exact", "perturbative-expanded",
                "ordered-truncated", "decompose-exact", "decompose-expanded"},
         b \in {Absent, NoneS, "expanded", "exponentiated"}, c \in {Absent, "exact", "expanded"},
         d \in {Absent, "true", "false"}, e \in {Absent, "given"}}
G3 == {[Default EXCEPT !.aqed = a, !.aem = b, !.qedref = c, !.nfref = d] :
         a \in {Absent, NoneS, "v"}, b \in {Absent, NoneS, "w"}, c \in {Absent, "same", "other"}, d \in 3..6}
(* scales: tokens 1..7; squared-scale keys only strictly between matching scales        *)
G4 == {[Default EXCEPT !.nf0 = a, !.q0 = b, !.gridkey = c, !.grid = d] :
         a \in {0, 3, 4, 5, 6}, b \in 1..7, c \in {"mugrid", "Q2grid", "mu2grid"},
         d \in {<<x>> : x \in 1..7} \cup {<<x, y>> : x \in 1..7, y \in {1, 4, 7}}}
Init == o \in G1 \cup G2 \cup G3 \cup {g \in G4 : g.gridkey = "mugrid" \/ \A j \in DOMAIN g.grid : g.grid[j] \in {1, 3, 5, 7}}
Next == UNCHANGED o

InvTheory == LET t == NewTheory(o) IN IF o.HQ \in {"POLE", "MSBAR"} THEN t.err = "" /\ C41_Theory(o, t) ELSE t.err = "ValueError"
InvOperator == C41_Operator(o, NewOperator(o))
=============================================================================
