----------------------------- MODULE EkoreLaws -----------------------------
(* Mode L for the ekore leaf functions: C24 (values of the harmonic sums), C25,  *)
(* C26, C27, C29, C30.                                                           *)
(*                                                                               *)
(* This module holds, per law,                                                   *)
(*  (i)   the cell domain  Plan(check)  -- a set of records that TLC enumerates   *)
(*        into the test plan (module EkoreLawsPlan), so that no function /        *)
(*        sector / order / nf / variant cell can be skipped silently;             *)
(*  (ii)  the tables the measurements are driven by (which function exists at     *)
(*        which order for which variant; which entry combinations must vanish     *)
(*        where; index map QED grid <-> QCD towers with charge factors; cusp      *)
(*        coefficients);                                                          *)
(*  (iii) the required class of every cell, derived from attributes of the cell   *)
(*        (accuracy class of the expression, kind of sum), and the acceptance     *)
(*        predicate  Verdict(check, cell, obs)  over the integer observation      *)
(*        the harness recorded for that cell.                                     *)
(* Observations are integers only: cls = 0 bitwise, 1 rounding (<= 1e-11          *)
(* relative), 2.. decade buckets above;  e = floor(100*log10(residual)).          *)
(* Module EkoreLawsTrace validates a recorded trace against this module.          *)
EXTENDS Naturals, Integers, Sequences, FiniteSets, TLC

CONSTANTS
  J,          \* random points per cell (drawn by the harness from VERIF_SEED)
  Switch      \* "none" | a named design switch that TLC must refute (vacuity guard)

Pts == 1..J
(* an observation within half a decade of its threshold is neither pass nor violation *)
Judge(e, req, name) == IF e <= req - 50 THEN "ok" ELSE IF e <= req THEN "unresolved" ELSE name

(* ===========================================================================*)
(* availability of functions (from the dispatchers of ekore)                    *)
(* ===========================================================================*)
AdVariants == {"us", "ut", "ps", "qed"}   \* unpolarised space-like, time-like, polarised, QED-extended
AdMaxOrder(v) == CASE v = "us" -> 4 [] v = "qed" -> 4 [] v = "ut" -> 3 [] v = "ps" -> 3
AdSectors(v) == IF v = "qed" THEN {"ns+u", "ns+d", "ns-u", "ns-d", "S", "V"}
                ELSE {"ns+", "ns-", "nsv", "S"}
QedOrders(v) == IF v = "qed" THEN {1, 2} ELSE {0}
(* two N3LO parametrisations; variation indices per parametrisation *)
Flavours(k) == IF k = 4 THEN {"fhmruvv", "eko"} ELSE {"-"}
NfSeq(k) == IF k = 4 THEN <<3, 4, 5>> ELSE <<3, 4, 5, 6>>
NfRange(k) == {NfSeq(k)[m] : m \in 1..Len(NfSeq(k))}
(* maximal variation index per singlet entry of the in-house N3LO (documented) *)
EkoVarMax == [gg |-> 19, gq |-> 15, qg |-> 15, qq |-> 6]
Min(a, b) == IF a < b THEN a ELSE b
(* the n3lo_ad_variation tuple (gg, gq, qg, qq, nsp, nsm, nsv) a variation index stands for:   *)
(* FHMRUVV: the same index for all seven functions; in-house set: the singlet entries, each     *)
(* clipped to its documented range                                                             *)
VarTuple(fl, var) ==
  IF fl = "fhmruvv" THEN <<var, var, var, var, var, var, var>>
  ELSE IF fl = "eko" THEN <<Min(var, EkoVarMax.gg), Min(var, EkoVarMax.gq), Min(var, EkoVarMax.qg),
                            Min(var, EkoVarMax.qq), 0, 0, 0>>
  ELSE <<0, 0, 0, 0, 0, 0, 0>>

OmeVariants == {"us", "ps", "ut"}
OmeMaxOrder(v) == CASE v = "us" -> 3 [] v = "ps" -> 2 [] v = "ut" -> 1
OmeSectors(v) == IF v = "us" THEN {"S", "Smsbar", "NS"} ELSE {"S", "NS"}
OmeNf == 3..5

(* ===========================================================================*)
(* C26  Conj: f(conj N) = conj f(N), Im f = 0 at real N                          *)
(* ===========================================================================*)
ConjVars(fl) == IF fl = "fhmruvv" THEN {0, 1, 2} ELSE IF fl = "eko" THEN {0, 1} ELSE {0}
C26AdConfigs ==
  {c \in [v : AdVariants, sec : AdSectors("us") \cup AdSectors("qed"), k : 1..4, q : 0..2, nf : 3..6,
          fl : {"-", "fhmruvv", "eko"}, var : 0..2] :
     /\ c.sec \in AdSectors(c.v)
     /\ c.k <= AdMaxOrder(c.v)
     /\ c.q \in QedOrders(c.v)
     /\ c.fl \in Flavours(c.k)
     /\ c.nf \in NfRange(c.k)
     /\ c.var \in ConjVars(c.fl)}
C26OmeConfigs ==
  {c \in [v : OmeVariants, sec : {"S", "Smsbar", "NS"}, k : 1..3, nf : OmeNf] :
     c.sec \in OmeSectors(c.v) /\ c.k <= OmeMaxOrder(c.v)}
PlanC26 ==
  {[fam |-> "ad", v |-> c.v, sec |-> c.sec, k |-> c.k, q |-> c.q, nf |-> c.nf, fl |-> c.fl, var |-> c.var, j |-> j] :
     c \in C26AdConfigs, j \in Pts}
  \cup {[fam |-> "ome", v |-> c.v, sec |-> c.sec, k |-> c.k, q |-> 0, nf |-> c.nf, fl |-> "-", var |-> 0, j |-> j] :
          c \in (IF Switch = "plan-without-ome" THEN {} ELSE C26OmeConfigs), j \in Pts}

C26Verdict(c, o) ==
  IF o.cj > 1 THEN "C26:conj"
  ELSE IF o.re > 1 THEN "C26:real-axis"
  ELSE "ok"

(* ===========================================================================*)
(* C24  values of the harmonic sums: SumInduction + Conj                         *)
(* ===========================================================================*)
SimpleSums == {"S1", "S2", "S3", "S4", "S5", "Sm1", "Sm2", "Sm3", "Sm4", "Sm5"}
NestedTight == {"S21", "S31", "S211", "Sm2m1"}             \* g18, g22, g21, g19 approximations
NestedLoose == {"Sm21", "S2m1", "Sm31", "Sm22", "Sm211"}   \* g3, g4, g6, g5, g8 approximations
Sums == SimpleSums \cup NestedTight \cup NestedLoose
(* required exponent x100 of the absolute residual of base case / recurrence.      *)
(* Simple sums are closed forms in polygamma functions: rounding.  Nested sums are *)
(* evaluated through polynomial approximations of Mellin transforms: the class is   *)
(* the worst residual of the unchanged tree (2.5e-8, 2.0e-6) x 10^3.                *)
SumTier(s) == IF s \in SimpleSums THEN -1100 ELSE IF s \in NestedTight THEN -450 ELSE -250
PlanC24 ==
  {[law |-> "Base", sum |-> s, N |-> 1, flag |-> f, j |-> 0] : s \in Sums, f \in {"flag", "none"}}
  \cup {[law |-> "RecInt", sum |-> s, N |-> n, flag |-> f, j |-> 0] :
          s \in Sums, n \in 1..60, f \in {"flag", "none"}}
  \cup {[law |-> "RecCplx", sum |-> s, N |-> 0, flag |-> f, j |-> j] :
          s \in Sums, f \in {"S", "NS"}, j \in Pts}
  \cup {[law |-> "Conj", sum |-> s, N |-> 0, flag |-> f, j |-> j] :
          s \in Sums, f \in {"S", "NS"}, j \in Pts}
C24Verdict(c, o) ==
  IF c.law = "Conj"
  THEN IF o.cj > 1 THEN "C24:conj" ELSE IF o.re > 1 THEN "C24:real-axis" ELSE "ok"
  ELSE Judge(o.e, IF Switch = "strict-sums" THEN -1700 ELSE SumTier(c.sum),
             IF c.law = "Base" THEN "C24:base-case" ELSE "C24:recurrence")

(* ===========================================================================*)
(* C25  SumRules of the anomalous dimensions                                     *)
(* ===========================================================================*)
(* accuracy class of the expression an order is implemented with *)
AccClass(v, k, q, fl) ==
  CASE q = 0 /\ k = 1 -> "exact"
    [] q = 0 /\ k = 2 -> "gfun"                     \* exact expressions, approximated Mellin g-functions
    [] q = 0 /\ k = 3 -> "param3"                   \* NNLO parametrisations (Moch, Vermaseren, Vogt)
    [] q = 0 /\ k = 4 /\ fl = "fhmruvv" -> "param"  \* documented "0.1 % or better" parametrisations
    [] q = 0 /\ k = 4 /\ fl = "eko" -> "constrained" \* in-house set, built on the sum rules
    [] v = "qed" /\ q = 1 /\ k = 0 -> "exact"
    [] v = "qed" /\ q >= 1 -> "gfun"                  \* as1aem1 (g3), aem2 built on it
(* required exponent x100 of the relative residual: exact 1e-9; g-function          *)
(* approximations and the in-house N3LO set 1e-4 (tests assert 4e-5 absolute on     *)
(* entries of O(10)); NNLO parametrisations 1e-3 (tests pin residuals of 4e-3 on    *)
(* entries of O(300)); documented FHMRUVV accuracy 1e-3 x 10                         *)
AccExp(a) == CASE a = "exact" -> -900 [] a = "gfun" -> -400 [] a = "constrained" -> -400
               [] a = "param3" -> -300 [] a = "param" -> -200

(* A rule: evaluation point, the combination (sector, row, column, weight) whose     *)
(* weighted sum must vanish (indices 0-based as in the code; -1 = scalar), an extra   *)
(* additive term, and where the scale of the cell is taken: "terms" = sum of the      *)
(* moduli of the terms at the evaluation point, "next" = modulus of the entry at the  *)
(* next integer moment; in both cases maximised over the nf values of the order       *)
(* (an entry may nearly cancel for one nf).                                           *)
Term(s, a, b, w) == [sec |-> s, a |-> a, b |-> b, w |-> w]
SumRule(v, r) ==
  CASE v = "us" /\ r = "mom-q" -> [at |-> 2, terms |-> <<Term("S", 0, 0, "1"), Term("S", 1, 0, "1")>>, extra |-> "0", sc |-> "terms"]
    [] v = "us" /\ r = "mom-g" -> [at |-> 2, terms |-> <<Term("S", 0, 1, "1"), Term("S", 1, 1, "1")>>, extra |-> "0", sc |-> "terms"]
    [] v = "us" /\ r = "num-m" -> [at |-> 1, terms |-> <<Term("ns-", -1, -1, "1")>>, extra |-> "0", sc |-> "next"]
    [] v = "us" /\ r = "num-v" -> [at |-> 1, terms |-> <<Term("nsv", -1, -1, "1")>>, extra |-> "0", sc |-> "next"]
    (* fragmentation convention: (2 nf, 1) is conserved, row-wise *)
    [] v = "ut" /\ r = "mom-q" -> [at |-> 2, terms |-> <<Term("S", 0, 0, "2nf"), Term("S", 0, 1, "1")>>, extra |-> "0", sc |-> "terms"]
    [] v = "ut" /\ r = "mom-g" -> [at |-> 2, terms |-> <<Term("S", 1, 0, "2nf"), Term("S", 1, 1, "1")>>, extra |-> "0", sc |-> "terms"]
    [] v = "ut" /\ r = "num-m" -> [at |-> 1, terms |-> <<Term("ns-", -1, -1, "1")>>, extra |-> "0", sc |-> "next"]
    [] v = "ut" /\ r = "num-v" -> [at |-> 1, terms |-> <<Term("nsv", -1, -1, "1")>>, extra |-> "0", sc |-> "next"]
    (* polarised: axial charge (ns+), quark-from-gluon, gluon-gluon = -beta_k *)
    [] v = "ps" /\ r = "axial" -> [at |-> 1, terms |-> <<Term("ns+", -1, -1, "1")>>, extra |-> "0", sc |-> "next"]
    [] v = "ps" /\ r = "qg1" -> [at |-> 1, terms |-> <<Term("S", 0, 1, "1")>>, extra |-> "0", sc |-> "next"]
    [] v = "ps" /\ r = "gg-beta" -> [at |-> 1, terms |-> <<Term("S", 1, 1, "1")>>, extra |-> "beta", sc |-> "terms"]
    (* QED basis (g, photon, Sigma, Sigma_Delta): gluon + photon + singlet is conserved *)
    [] v = "qed" /\ r = "mom-g" -> [at |-> 2, terms |-> <<Term("S", 0, 0, "1"), Term("S", 1, 0, "1"), Term("S", 2, 0, "1")>>, extra |-> "0", sc |-> "terms"]
    [] v = "qed" /\ r = "mom-ph" -> [at |-> 2, terms |-> <<Term("S", 0, 1, "1"), Term("S", 1, 1, "1"), Term("S", 2, 1, "1")>>, extra |-> "0", sc |-> "terms"]
    [] v = "qed" /\ r = "mom-q" -> [at |-> 2, terms |-> <<Term("S", 0, 2, "1"), Term("S", 1, 2, "1"), Term("S", 2, 2, "1")>>, extra |-> "0", sc |-> "terms"]
    [] v = "qed" /\ r = "mom-qd" -> [at |-> 2, terms |-> <<Term("S", 0, 3, "1"), Term("S", 1, 3, "1"), Term("S", 2, 3, "1")>>, extra |-> "0", sc |-> "terms"]
    [] v = "qed" /\ r = "num-v00" -> [at |-> 1, terms |-> <<Term("V", 0, 0, "1")>>, extra |-> "0", sc |-> "next"]
    [] v = "qed" /\ r = "num-v01" -> [at |-> 1, terms |-> <<Term("V", 0, 1, "1")>>, extra |-> "0", sc |-> "next"]
    [] v = "qed" /\ r = "num-v10" -> [at |-> 1, terms |-> <<Term("V", 1, 0, "1")>>, extra |-> "0", sc |-> "next"]
    [] v = "qed" /\ r = "num-v11" -> [at |-> 1, terms |-> <<Term("V", 1, 1, "1")>>, extra |-> "0", sc |-> "next"]
    [] v = "qed" /\ r = "num-u" -> [at |-> 1, terms |-> <<Term("ns-u", -1, -1, "1")>>, extra |-> "0", sc |-> "next"]
    [] v = "qed" /\ r = "num-d" -> [at |-> 1, terms |-> <<Term("ns-d", -1, -1, "1")>>, extra |-> "0", sc |-> "next"]
Rules(v) ==
  CASE v = "us" -> {"mom-q", "mom-g", "num-m", "num-v"}
    [] v = "ut" -> {"mom-q", "mom-g", "num-m", "num-v"}
    [] v = "ps" -> {"axial", "qg1", "gg-beta"}
    [] v = "qed" -> {"mom-g", "mom-ph", "mom-q", "mom-qd", "num-v00", "num-v01", "num-v10", "num-v11",
                     "num-u", "num-d"}
(* orders (k, q) of a variant's grid that carry an anomalous dimension *)
GridOrders(v) == IF v = "qed" THEN {<<1, 0>>, <<2, 0>>, <<3, 0>>, <<4, 0>>, <<0, 1>>, <<1, 1>>, <<0, 2>>}
                 ELSE {<<k, 0>> : k \in 1..AdMaxOrder(v)}
(* variation indices quantified over: all of them *)
RuleVars(fl, rule) ==
  IF fl = "fhmruvv" THEN 0..2
  ELSE IF fl = "eko" THEN (IF rule \in {"mom-q", "mom-g"} THEN 0..19 ELSE {0})
  ELSE {0}
AllRules == UNION {Rules(w) : w \in AdVariants}
AllOrders == UNION {GridOrders(w) : w \in AdVariants}
C25RuleCellsOf(fl) ==
  {[law |-> "SumRule", v |-> v, rule |-> r, k |-> o[1], q |-> o[2], nf |-> nf, fl |-> fl, var |-> var, j |-> 0] :
     v \in AdVariants, r \in AllRules, o \in {x \in AllOrders : fl \in Flavours(x[1])}, nf \in 3..6,
     var \in (IF fl = "eko" THEN 0..19 ELSE IF fl = "fhmruvv" THEN 0..2 ELSE {0})}
C25RuleCells == UNION {C25RuleCellsOf(fl) : fl \in {"-", "fhmruvv", "eko"}}
C25RuleOk(c) == /\ c.rule \in Rules(c.v)
                /\ <<c.k, c.q>> \in GridOrders(c.v)
                /\ c.fl \in Flavours(c.k)
                /\ c.nf \in NfRange(c.k)
                /\ c.var \in RuleVars(c.fl, c.rule)
(* FHMRUVV: central = mean(upper, lower), per splitting function *)
FhmruvvEntries == {"gg", "gq", "qg", "ps", "nsp", "nsm", "nsv"}
C25MeanCells == {[law |-> "FhmruvvMean", v |-> "us", rule |-> e, k |-> 4, q |-> 0, nf |-> nf,
                  fl |-> "fhmruvv", var |-> 0, j |-> j] : e \in FhmruvvEntries, nf \in 3..5, j \in Pts}
(* the harness is handed the rule itself and the nf values the scale is maximised over *)
PlanC25 == {[cell |-> c, def |-> SumRule(c.v, c.rule), nfs |-> NfSeq(c.k), vt |-> VarTuple(c.fl, c.var)] :
              c \in {x \in C25RuleCells : C25RuleOk(x)}}
           \cup {[cell |-> c, def |-> [at |-> 0], nfs |-> NfSeq(4), vt |-> VarTuple("-", 0)] : c \in C25MeanCells}

C25Required(c) == IF c.law = "FhmruvvMean" THEN -500 ELSE AccExp(AccClass(c.v, c.k, c.q, c.fl))
C25Verdict(cc, o) ==
  LET c == cc.cell IN
  IF c.law = "FhmruvvMean"
  THEN Judge(o.e, -500, "C25:fhmruvv-central-not-mean")
  ELSE Judge(o.e, IF Switch = "all-exact" THEN -900 ELSE C25Required(c), "C25:" \o c.v \o ":" \o c.rule)

(* ===========================================================================*)
(* C30  QedGrid: linear relations between entries of the QED grids and the QCD    *)
(*      towers, with rational charge factors                                      *)
(* ===========================================================================*)
(* an entry: grid, order (k, q), indices (a, b) (-1 = scalar), coefficient num/den *)
E(g, k, q, a, b, num, den) == [g |-> g, k |-> k, q |-> q, a |-> a, b |-> b, num |-> num, den |-> den]
(* index map (g, photon, Sigma, Sigma_Delta) <- singlet tower (q, g) *)
EmbedS == { <<0, 0, 1, 1>>, <<0, 2, 1, 0>>, <<2, 0, 0, 1>>, <<2, 2, 0, 0>> }   \* <<qed row, qed col, qcd row, qcd col>>
ZeroS == ({0, 1, 2, 3} \X {0, 1, 2, 3}) \ ({<<x[1], x[2]>> : x \in EmbedS} \cup {<<3, 3>>})
QedNsModes == {"ns+u", "ns+d", "ns-u", "ns-d"}
QcdOf(m) == IF m \in {"ns+u", "ns+d"} THEN "ns+" ELSE "ns-"
Eu2 == <<4, 9>>
Ed2 == <<1, 9>>
Relations(k) ==   \* pure-QCD order (k, 0)
  {[name |-> "embed-S", terms |-> <<E("qed:S", k, 0, x[1], x[2], 1, 1), E("qcd:S", k, 0, x[3], x[4], -1, 1)>>] : x \in EmbedS}
  \cup {[name |-> "embed-Sdelta", terms |-> <<E("qed:S", k, 0, 3, 3, 1, 1), E("qcd:ns+", k, 0, -1, -1, -1, 1)>>]}
  \cup {[name |-> "zero-S", terms |-> <<E("qed:S", k, 0, x[1], x[2], 1, 1)>>] : x \in ZeroS}
  \cup {[name |-> "embed-V", terms |-> <<E("qed:V", k, 0, 0, 0, 1, 1), E("qcd:nsv", k, 0, -1, -1, -1, 1)>>],
        [name |-> "embed-Vdelta", terms |-> <<E("qed:V", k, 0, 1, 1, 1, 1), E("qcd:ns-", k, 0, -1, -1, -1, 1)>>],
        [name |-> "zero-V", terms |-> <<E("qed:V", k, 0, 0, 1, 1, 1)>>],
        [name |-> "zero-V", terms |-> <<E("qed:V", k, 0, 1, 0, 1, 1)>>]}
  \cup {[name |-> "embed-" \o m, terms |-> <<E("qed:" \o m, k, 0, -1, -1, 1, 1), E("qcd:" \o QcdOf(m), k, 0, -1, -1, -1, 1)>>] :
          m \in QedNsModes}
(* pure-QED / mixed orders: e_u^2 : e_d^2 = 4 : 1 of the same function;            *)
(* at (0,2) the functions differ by the (1,1) entry: u/e_u^2 - d/e_d^2 =           *)
(* (e_u^2 - e_d^2) gamma^(1,1)/(2 C_F)  <=>  9/4 u02 - 9 d02 - 9/32 u11 = 0        *)
ChargeRelations ==
  {[name |-> "charge-ratio", terms |-> <<E("qed:ns" \o s \o "u", o[1], o[2], -1, -1, 1, 1),
                                          E("qed:ns" \o s \o "d", o[1], o[2], -1, -1, -Eu2[1] * Ed2[2], Ed2[1] * Eu2[2])>>] :
     s \in {"+", "-"}, o \in {<<0, 1>>, <<1, 1>>}}
  \cup {[name |-> "charge-split", terms |-> <<E("qed:ns" \o s \o "u", 0, 2, -1, -1, 9, 4),
                                               E("qed:ns" \o s \o "d", 0, 2, -1, -1, -9, 1),
                                               E("qed:ns" \o s \o "u", 1, 1, -1, -1, -9, 32)>>] : s \in {"+", "-"}}
(* the gluon row / column carries no pure-QED evolution *)
  \cup {[name |-> "zero-gluon-aem", terms |-> <<E("qed:S", 0, q, x[1], x[2], 1, 1)>>] :
          q \in {1, 2}, x \in ({0} \X {0, 1, 2, 3}) \cup ({1, 2, 3} \X {0})}
C30Configs ==
  {c \in [rel : UNION {Relations(kk) : kk \in 1..4}, k : 1..4, nf : 3..6, fl : {"-", "fhmruvv", "eko"}, var : 0..2] :
     /\ c.rel \in Relations(c.k)
     /\ c.fl \in Flavours(c.k) /\ c.nf \in NfRange(c.k)
     /\ c.var \in (IF c.fl = "fhmruvv" THEN 0..2 ELSE {0})}
PlanC30 == {[rel |-> c.rel, k |-> c.k, nf |-> c.nf, fl |-> c.fl, var |-> c.var, j |-> j] : c \in C30Configs, j \in Pts}
           \cup {[rel |-> r, k |-> 1, nf |-> nf, fl |-> "-", var |-> 0, j |-> j] :
                   r \in ChargeRelations, nf \in 3..6, j \in Pts}
(* entries named "zero-*" must be exactly zero, everything else equal to rounding *)
C30Verdict(c, o) ==
  LET zero == c.rel.name \in {"zero-S", "zero-V", "zero-gluon-aem"} IN
  IF o.cls <= (IF zero \/ Switch = "all-bitwise" THEN 0 ELSE 1) THEN "ok" ELSE "C30:" \o c.rel.name

(* ===========================================================================*)
(* C27  Cusp: slope of the diagonal entries at large N                           *)
(* ===========================================================================*)
(* A_k(nf) x 10^4 (a_s = alpha_s/(4 pi)): A_1 = 4 C_F, A_2, A_3 from                 *)
(* Moch-Vermaseren-Vogt 2004, A_4 as published decimals (Moch et al. 2017)           *)
Cusp1e4(k, nf) ==
  CASE k = 1 -> 53333
    [] k = 2 -> 664732 - 59259 * nf
    [] k = 3 -> 11748983 - 1831874 * nf - 7901 * nf * nf
    [] k = 4 -> 207020000 - 51719000 * nf + 1955772 * nf * nf + 32723 * nf * nf * nf
CuspVariants == {"us", "ut", "ps"}
CuspMaxOrder(v) == IF v = "us" THEN 4 ELSE 3
(* gg: (C_A/C_F) A_k = 9/4 A_k only for k <= 3: at four loops quartic Casimirs break  *)
(* Casimir scaling (A_g,4 # (C_A/C_F) A_q,4); the code follows the literature, so    *)
(* the clause is not decided (and not flagged) for k = 4.                             *)
(* a cell carries the expected slope num/(10^4 dd) and the normalisation den/(10^4 dd) *)
(* var: the N3LO variation index of the FHMRUVV parametrisation (0 central, 1, 2): the cusp  *)
(* term is known exactly, so every variation must show the same slope                       *)
PlanC27Ns ==
  {c \in {[v |-> v, sec |-> s, k |-> k, nf |-> nf, fl |-> fl, var |-> var, j |-> j,
            num |-> Cusp1e4(k, nf), den |-> Cusp1e4(k, 0), dd |-> 1] :
            v \in CuspVariants, s \in {"ns+", "ns-", "nsv"}, k \in 1..4, nf \in 3..5,
            fl \in {"-", "fhmruvv", "eko"}, var \in 0..2, j \in Pts} :
     c.k <= CuspMaxOrder(c.v) /\ c.fl \in Flavours(c.k) /\ (c.var > 0 => c.fl = "fhmruvv")}
PlanC27Gg ==
  {[v |-> v, sec |-> "gg", k |-> k, nf |-> nf, fl |-> "-", var |-> 0, j |-> j,
    num |-> 9 * Cusp1e4(k, nf), den |-> 9 * Cusp1e4(k, 0), dd |-> 4] :
     v \in CuspVariants, k \in 1..3, nf \in 3..5, j \in Pts}
(* required exponent x100 of |slope - A_k(nf)| / A_k(0), N pairs in [3e4, 1e5]:     *)
(* the unchanged tree stays below 2.1e-4 (finite-N corrections ~ ln N / N)          *)
C27Verdict(c, o) ==
  Judge(o.e, IF Switch = "cusp-exact" THEN -500 ELSE -200, "C27:" \o c.v \o ":" \o c.sec)

(* ===========================================================================*)
(* C29  SumRules of the matching elements (unpolarised space-like)               *)
(* ===========================================================================*)
(* singlet OME basis (g, light quarks, heavy quark): column sums vanish at N = 2;    *)
(* non-singlet OME vanishes at N = 1.  The heavy-quark column exists at first order  *)
(* only (intrinsic contributions).                                                    *)
OmeRule(r) ==
  CASE r = "mom-g" -> [at |-> 2, sec |-> "S", col |-> 0]
    [] r = "mom-q" -> [at |-> 2, sec |-> "S", col |-> 1]
    [] r = "mom-h" -> [at |-> 2, sec |-> "S", col |-> 2]
    [] r = "num" -> [at |-> 1, sec |-> "NS", col |-> 0]
OmeRules(k) == IF k = 1 THEN {"mom-g", "mom-q", "mom-h", "num"} ELSE {"mom-g", "mom-q", "num"}
(* first order exact; second order exact expressions with approximated g-functions (unchanged    *)
(* tree 1.6e-8); third order parametrised a_Hg, fitted a_qq^NS (unchanged tree 1.3e-7, limit 1e-7) *)
OmeAcc(k) == CASE k = 1 -> -900 [] k = 2 -> -500 [] k = 3 -> -400
PlanC29Sum ==
  {c \in {[law |-> "OmeSumRule", rule |-> r, def |-> OmeRule(r), k |-> k, nf |-> nf, msbar |-> m, j |-> j] :
            r \in {"mom-g", "mom-q", "mom-h", "num"}, k \in 1..3, nf \in OmeNf, m \in {0, 1}, j \in Pts} :
     c.rule \in OmeRules(c.k) /\ (c.msbar = 1 => (c.k = 2 /\ c.rule \in {"mom-g", "mom-q"}))}
C29SumVerdict(c, o) ==
  Judge(o.e, IF Switch = "ome-exact" THEN -900 ELSE OmeAcc(c.k), "C29:" \o c.rule)

(* RG law for the L-dependence, first order.  With f(nf+1) = A(a, L) f(nf), L = ln(mu^2/m^2)  *)
(* and d f / d ln mu^2 = -gamma f in both schemes, order a^1 of the RG equation reads          *)
(*     dA1/dL = G0(nf) - G0(nf+1)                                                              *)
(* in the basis (g, Sigma_light, h+), where the embeddings are                                 *)
(*     G0(nf)   = [[gg(nf), gq, 0], [qg(nf), qq, 0], [0, 0, 0]]      (heavy quark inert)       *)
(*     G0(nf+1) = [[gg(nf+1), gq, gq], [qg(nf), qq, 0], [qg(1), 0, qq]]  (qg split nf : 1)     *)
(* (time-like: the same with the transposed roles the code uses, gq(N, nf) split nf : 1).      *)
(* Beta-function and decoupling terms start at order a^2.  Columns judged: all three for the   *)
(* unpolarised matching (intrinsic heavy-quark column implemented), gluon and light-quark      *)
(* columns for the polarised and time-like matching.                                           *)
OmeRgeVariants == {"us", "ps", "ut"}
RgeCols(v) == IF v = "us" THEN <<0, 1, 2>> ELSE <<0, 1>>
PlanC29Rge ==
  {[law |-> "OmeRge", v |-> v, cols |-> RgeCols(v), k |-> 1, nf |-> nf, j |-> j] :
     v \in OmeRgeVariants, nf \in OmeNf, j \in Pts}
C29RgeVerdict(c, o) == Judge(o.e, IF Switch = "ome-exact" THEN -1700 ELSE -800, "C29:rge:" \o c.v)
(* Non-singlet element, second and third order (scalars, so the RG equation closes on the code's own    *)
(* gamma_ns^-(nf), gamma_ns^-(nf+1), beta(nf+1) and the downward decoupling table of the coupling):       *)
(*     dA2/dL = beta0' A1 + gamma0 d1 + gamma1(nf) - gamma1(nf+1)                                         *)
(*     dA3/dL = 2 beta0' A2 + beta1' A1 + gamma0 d2 + 2 d1 gamma1(nf) + gamma2(nf) - gamma2(nf+1)          *)
(*              + A1 (gamma0 d1 + gamma1(nf) - gamma1(nf+1))                                              *)
(* Second order is exact (unchanged tree 7e-15); the third order inherits the parametrised NNLO           *)
(* anomalous dimension (unchanged tree <= 5e-5 of the largest term for Re N >= 1.3, limit 1e-3).          *)
OmeRgeNsCases == {<<"us", 2>>, <<"us", 3>>, <<"ps", 2>>}
PlanC29RgeNs ==
  {[law |-> "OmeRgeNs", v |-> vk[1], k |-> vk[2], nf |-> nf, j |-> j] : vk \in OmeRgeNsCases, nf \in OmeNf, j \in Pts}
C29RgeNsVerdict(c, o) ==
  Judge(o.e, IF Switch = "ome-exact" THEN -1700 ELSE IF c.k = 2 THEN -1100 ELSE -300,
        "C29:rge-ns:" \o c.v \o (IF c.k = 2 THEN ":second-order" ELSE ":third-order"))
(* Singlet matrices, second order, judged entry by entry (row <- column in (g, Sigma_light, h+); the        *)
(* intrinsic heavy-quark column exists at first order only):                                                *)
(*     dA2/dL = beta0' A1 + G1(nf) + d1 G0(nf) - G1(nf+1) + A1 G0(nf) - G0(nf+1) A1                          *)
(* G(nf): nf-flavour singlet matrix, heavy quark inert.  G(nf+1): evolution of (g, Sigma_light + h+) with   *)
(* the (nf+1)-flavour singlet matrix and of Sigma_light - nf h+ with gamma_ns^+, rewritten in the basis:     *)
(*     g row (gg, gq, gq); Sigma row (nf qg, nf qq + ns, nf (qq - ns)) / (nf+1);                              *)
(*     h+ row (qg, qq - ns, qq + nf ns) / (nf+1)                                                              *)
(* All anomalous dimensions, beta0 and d1 are the code's own.  Unchanged tree: 6e-16 (unpolarised).          *)
OmeEntries2 == {"gg", "gq", "qg", "qq", "hg", "hq"}
PlanC29Rge2 ==
  {[law |-> "OmeRge2", v |-> v, entry |-> en, k |-> 2, nf |-> nf, j |-> j] :
     v \in {"us", "ps", "us-msbar"}, en \in OmeEntries2, nf \in OmeNf, j \in Pts}
C29Rge2Verdict(c, o) ==
  Judge(o.e, IF Switch = "ome-exact" THEN -1700 ELSE -1100, "C29:rge2:" \o c.v \o ":" \o c.entry)
PlanC29 == PlanC29Sum \cup PlanC29Rge \cup PlanC29RgeNs \cup PlanC29Rge2
C29Verdict(c, o) == IF c.law = "OmeRge" THEN C29RgeVerdict(c, o)
                    ELSE IF c.law = "OmeRgeNs" THEN C29RgeNsVerdict(c, o)
                    ELSE IF c.law = "OmeRge2" THEN C29Rge2Verdict(c, o) ELSE C29SumVerdict(c, o)

(* ===========================================================================*)
Checks == {"C24", "C25", "C26", "C27", "C29", "C30"}
Plan(ch) == CASE ch = "C24" -> PlanC24 [] ch = "C25" -> PlanC25 [] ch = "C26" -> PlanC26
              [] ch = "C27" -> PlanC27Ns \cup PlanC27Gg [] ch = "C29" -> PlanC29 [] ch = "C30" -> PlanC30
Verdict(ch, c, o) ==
  CASE ch = "C24" -> C24Verdict(c, o) [] ch = "C25" -> C25Verdict(c, o) [] ch = "C26" -> C26Verdict(c, o)
    [] ch = "C27" -> C27Verdict(c, o) [] ch = "C29" -> C29Verdict(c, o) [] ch = "C30" -> C30Verdict(c, o)
=============================================================================
