CONSTANTS
  DestMustExist = FALSE
  ExampleNumpy = FALSE
INIT Init
NEXT Next
INVARIANT TypeOK
INVARIANT InvGen
INVARIANT InvRun
INVARIANT InvRefused
INVARIANT InvFrame
CHECK_DEADLOCK FALSE
