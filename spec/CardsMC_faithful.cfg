CONSTANT Design = "faithful"
INIT Init
NEXT Next
INVARIANT InvPlain
INVARIANT InvRoundTrip
INVARIANT InvEnumByName
CHECK_DEADLOCK FALSE
