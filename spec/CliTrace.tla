------------------------------ MODULE CliTrace ------------------------------
(* B3 for C49: one record per executed command                                      *)
(*   [seq, cmd |-> [op, l], pre, post, exit, rc, cardsEq, ops]                       *)
(* pre/post are projections of the real working directory before/after the command. *)
(* property grade: C49_Gen / C49_Run evaluated on the observed step (from the        *)
(* observed pre-state, so a divergence in an earlier step never falsifies a later    *)
(* verdict); conformance grade: is the observed step the step of the faithful or of  *)
(* the intended design.                                                              *)
EXTENDS Json, IOUtils, TLC, TLCExt, Sequences, Naturals
F == INSTANCE Cli WITH DestMustExist <- TRUE, ExampleNumpy <- TRUE
I == INSTANCE Cli WITH DestMustExist <- FALSE, ExampleNumpy <- FALSE

TLog == JsonDeserialize(IOEnv.TRACE_FILE)
VARIABLE i
Init == i = 1
Next == i <= Len(TLog) /\ i' = i + 1

Fs(j) == [dir |-> j.dir, cards |-> j.cards, out |-> j.out]
St(r) == [cmd |-> [op |-> r.cmd.op, l |-> r.cmd.l], pre |-> Fs(r.pre), post |-> Fs(r.post),
          exit |-> r.exit, cardsEq |-> r.cardsEq, ops |-> r.ops]

Verdict(st) ==
  IF st.cmd.op = "gen" THEN
       IF I!C49_Gen(st) THEN "ok"
       ELSE IF st.exit = "fail" /\ ~st.pre.dir[st.cmd.l] /\ st.post = st.pre
            THEN "C49:runcards-example-destination-must-exist"
       ELSE IF st.exit = "fail" /\ st.post.cards[st.cmd.l] = "partial"
            THEN "C49:runcards-example-cards-not-dumped"
       ELSE IF st.cardsEq = "differ" THEN "C49:example-cards-differ"
       ELSE "C49:runcards-example-failed"
  ELSE IF st.cmd.op \in I!Inspects THEN
       IF I!Inspect(st) THEN "ok"
       ELSE IF st.post # st.pre THEN "DIAG:inspect-modified-the-working-directory"
       ELSE IF st.ops = "differ" THEN "DIAG:inspect-output-differs-from-library"
       ELSE "DIAG:inspect-exit-status"
  ELSE IF I!Runnable(st.cmd, st.pre) THEN
       IF I!C49_Run(st) THEN "ok"
       ELSE IF st.ops = "differ" THEN "C49:cli-operators-differ"
       ELSE "C49:run-failed-on-valid-cards:" \o st.cmd.op
  ELSE IF ~I!RunRefused(st) THEN "DIAG:unrunnable-input-not-refused-cleanly"
  ELSE IF ~I!Frame(st) THEN "DIAG:frame"
  ELSE "ok"

Conf(st) ==
  LET f == F!Result(st.cmd, st.pre)
      n == I!Result(st.cmd, st.pre)
      isF == f.exit = st.exit /\ f.fs = st.post
      isI == n.exit = st.exit /\ n.fs = st.post
  IN IF isF /\ isI THEN "both" ELSE IF isF THEN "faithful" ELSE IF isI THEN "intended" ELSE "neither"

Inv == i <= Len(TLog) =>
         LET st == St(TLog[i])
             v == Verdict(st)
             c == Conf(st)
         IN /\ IF v = "ok" THEN TRUE ELSE PrintT(<<"BAD", i, v>>)
            /\ IF c = "both" THEN TRUE ELSE PrintT(<<"CONF", i, c>>)
Post == TLCGet("stats").diameter = Len(TLog) + 1
=============================================================================
