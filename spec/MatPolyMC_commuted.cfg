CONSTANT Variant = "commuted"
CONSTANT Tier = "quick"
INIT Init
NEXT Next
INVARIANT InvExpandedLaw
INVARIANT InvTruncation
INVARIANT InvExpandedDerived
INVARIANT InvDecoupling
INVARIANT InvMass
CHECK_DEADLOCK FALSE
