CONSTANTS
  J <- EnvJ
  Switch = "all-exact"
INIT Init
NEXT Next
INVARIANT Inv
POSTCONDITION Post
CHECK_DEADLOCK FALSE
