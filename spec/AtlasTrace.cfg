CONSTANT INF = 7
INIT Init
NEXT Next
INVARIANT Inv
POSTCONDITION Post
CHECK_DEADLOCK FALSE
