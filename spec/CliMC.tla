------------------------------- MODULE CliMC -------------------------------
(* B1 for C49: 16 initial file-system states x every command sequence of length <= 2 *)
EXTENDS Cli
VARIABLES fs, h
vars == <<fs, h>>

(* {default destination, explicit destination} present/absent x cards present/absent *)
(* x output present/absent (cards and stale outputs are placed in every directory     *)
(* that exists; the stale third-argument output always can exist)                      *)
InitFs(rc, d, cards, out) ==
  LET has == [l \in Locs |-> IF l = "rc" THEN rc ELSE d] IN
  [dir |-> has,
   cards |-> [l \in Locs |-> IF has[l] /\ cards THEN "valid" ELSE "none"],
   out |-> [o \in Outs |-> IF out /\ (o = "X" \/ has[o]) THEN "stale" ELSE "none"]]

Init == /\ \E rc \in BOOLEAN, d \in BOOLEAN, cards \in BOOLEAN, out \in BOOLEAN : fs = InitFs(rc, d, cards, out)
        /\ h = <<>>
Next == /\ Len(h) < 2
        /\ \E c \in Cmds :
             LET r == Result(c, fs) IN
             /\ fs' = r.fs
             /\ h' = Append(h, [cmd |-> c, pre |-> fs, post |-> r.fs, exit |-> r.exit,
                                cardsEq |-> IF c.op = "gen" /\ r.fs.cards[c.l] = "valid" THEN "equal" ELSE "na",
                                ops |-> IF c.op # "gen" /\ r.exit = "ok" THEN "same" ELSE "na"])

TypeOK == fs \in FsStates /\ WellFormed(fs)
InvGen == \A i \in DOMAIN h : C49_Gen(h[i])
InvRun == \A i \in DOMAIN h : C49_Run(h[i])
InvRefused == \A i \in DOMAIN h : RunRefused(h[i])
InvFrame == \A i \in DOMAIN h : Frame(h[i])
InvInspect == \A i \in DOMAIN h : Inspect(h[i])
=============================================================================
