------------------------------ MODULE LawsPlan ------------------------------
(* The measurement PLAN of a law is TLC's enumeration of its cell domain: every cell  *)
(* is an initial state; the set (with the class derived for each cell) is dumped as   *)
(* JSON for the harness, which measures exactly these cells.  The lemmas on the       *)
(* derivation are checked on the way; with a design switch (IOEnv.SWITCH) they must   *)
(* fail (vacuity guard).                                                              *)
EXTENDS Laws, Json
LawName == IOEnv.LAW
VARIABLES cell, judged
Init == cell \in Cells(LawName) /\ judged = FALSE
(* one step per cell: the lemmas are judged on the successor, so that a refutation is  *)
(* reported as an invariant violation with a behaviour                                *)
Next == ~judged /\ judged' = TRUE /\ UNCHANGED cell

ASSUME LawName \in LawIds
ASSUME JsonSerialize(IOEnv.PLAN_FILE,
         [law |-> LawName,
          cells |-> {[cell |-> c, req |-> Req(LawName, c), aux |-> Aux(LawName, c)] : c \in Cells(LawName)}])

WellFormed == LET q == Req(LawName, cell) IN
                /\ q.kind \in {"none", "dec", "exp"}
                /\ q.kind = "exp" => q.lo <= q.hi
                /\ q.kind = "dec" => q.lo \in 1..99
Lemmas == judged => LemmaForms
(* a law whose plan required nothing anywhere would be vacuous *)
ASSUME \E c \in Cells(LawName) : Req(LawName, c).kind # "none"
=============================================================================
