------------------------- MODULE HarmonicCacheTrace -------------------------
(* B3 for the cache clause of C24.  One record per call of the real            *)
(* ekore.harmonics.cache.get on a real cache array:                            *)
(*   [first  |-> BOOLEAN   the call starts on a fresh cache (cache.reset()),    *)
(*    par    |-> "S"|"NS"|"None",  key |-> name,                               *)
(*    filled |-> <<names of the slots that are not NaN after the call>>,        *)
(*    neq    |-> <<names of filled slots whose value differs (beyond rounding)  *)
(*                 from the direct evaluation of Canon(k) through the leaf      *)
(*                 functions>>,                                                 *)
(*    reply  |-> class of |reply - Canon(key)| (0 bitwise, 1 rounding, 2 else), *)
(*    same   |-> BOOLEAN   reply is bitwise the stored slot]                    *)
(* property grade ("C24:..."): every filled slot and the reply equal canon;     *)
(* conformance grade ("CONF:..."): the set of slots filled by the call is the   *)
(* one the transcription fills.                                                 *)
EXTENDS HarmonicCache, Json, IOUtils, TLCExt
TLog == JsonDeserialize(IOEnv.TRACE_FILE)
VARIABLE i
tvars == <<vars, i>>
SeqToSet(s) == {s[j] : j \in 1..Len(s)}

Before(r, m) == IF r.first THEN Empty ELSE m
(* the model variables follow the transcription; `slots` is the model cache *)
TInit == i = 1 /\ slots = Empty /\ par = "S" /\ reply = NaN /\ lastkey = "-" /\ steps = 0
TNext == /\ i <= Len(TLog)
         /\ LET r == TLog[i]
                known == r.key \in Keys /\ r.par \in Parities
                g == IF known THEN Get(r.key, Before(r, slots), r.par) ELSE <<slots, NaN>>
            IN /\ slots' = g[1]
               /\ reply' = g[2]
               /\ par' = IF known THEN r.par ELSE par
               /\ lastkey' = IF known THEN r.key ELSE "-"
               /\ steps' = IF r.first THEN 1 ELSE steps + 1
         /\ i' = i + 1

Verdict(r, m) ==
  IF r.key \notin Keys \/ r.par \notin Parities THEN "CONF:unknown-key-or-flag"
  ELSE LET g == Get(r.key, Before(r, m), r.par) IN
    IF SeqToSet(r.neq) # {} THEN "C24:slot-not-canon"
    ELSE IF r.reply > 1 THEN "C24:reply-not-canon"
    ELSE IF ~r.same THEN "C24:reply-differs-from-slot"
    ELSE IF SeqToSet(r.filled) # Filled(g[1]) THEN "CONF:filled-set-differs-from-transcription"
    ELSE IF \E k \in Filled(g[1]) : g[1][k] # Canon(k, r.par) THEN "CONF:transcription-not-canon"
    ELSE "ok"

Inv == i <= Len(TLog) =>
         LET v == Verdict(TLog[i], slots) IN
           IF v = "ok" THEN TRUE ELSE PrintT(<<"BAD", i, v>>)
Post == TLCGet("stats").diameter = Len(TLog) + 1
=============================================================================
