CONSTANTS
  INF = 9
  Ms <- MCMs
  RefPoint <- MCRef
  QScales = {1,2,3,4,5}
  QNfs = {3, 4, 5}
  MaxQueries = 4
  MaxMutations = 2
  CopyRef = TRUE
  CopyOnHit = TRUE
  Qed = FALSE
  TauTok = 100
  TauBelow = 2
  CopyOnStore = TRUE
  KeyHasNf = TRUE
  TrivialDec = FALSE
INIT Init
NEXT Next
INVARIANT C17_HistoryFree
INVARIANT C17_RefIntact
INVARIANT C17_NoAlias
INVARIANT C17_CacheSound
INVARIANT C16_Steps
PROPERTY C17_CacheImmutable
CHECK_DEADLOCK FALSE
