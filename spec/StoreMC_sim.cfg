CONSTANTS
  Keys <- MCKeys
  NfOf <- MCNfOf
  CloseTo <- MCCloseTo
  Vals = {"a", "b", "e"}
  ErrVals = {"e"}
  Metas = {"m0", "m1"}
  Forms = {"py", "np"}
  DelPhantom = FALSE
  ExtClash = FALSE
  CloseTwice = FALSE
  NpHeader = FALSE
INIT Init
NEXT Next
CHECK_DEADLOCK FALSE
