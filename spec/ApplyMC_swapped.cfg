CONSTANTS UpperClosed = TRUE FirstClosed = TRUE ContractFaithful = FALSE N = 2
INIT Init
NEXT Next
INVARIANT InvContract
INVARIANT InvCommute
INVARIANT InvSameGrid
INVARIANT InvBases
CHECK_DEADLOCK FALSE
