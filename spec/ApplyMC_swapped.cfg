CONSTANTS UpperClosed = TRUE FirstClosed = TRUE ContractFaithful = FALSE InputInverse = TRUE N = 2
INIT Init
NEXT Next
INVARIANT InvContract
INVARIANT InvCommute
INVARIANT InvSameGrid
INVARIANT InvBases
CHECK_DEADLOCK FALSE
