------------------------------ MODULE Flavors ------------------------------
(* Exact flavour algebra of eko (mode A, DESIGN 4.6): properties C31, C32, C33, *)
(* C46.                                                                         *)
(*                                                                             *)
(* Flavour space is Q^14, ordered as eko.basis_rotation.flavor_basis_pids.      *)
(* A *distribution* (S, T3, c+, ...) is a linear functional on flavour space,   *)
(* i.e. a row vector of 14 rationals.                                           *)
(*                                                                             *)
(* Part 1  the bases DEFINED FROM THEIR PHYSICAL MEANING (docs FlavorSpace.rst: *)
(*         S = sum q+, V = sum q-, T3 = u+ - d+, T8 = u+ + d+ - 2 s+, ...;      *)
(*         unified: Sdelta = Sigma_u - Sigma_d, Td3 = d+ - s+, ...), nothing is *)
(*         copied from basis_rotation.py;                                       *)
(* Part 2  the property predicates C31_*, C32_*, C33_*, C46_* written against   *)
(*         Part 1 only: they are evaluated by FlavorsTrace on the numbers the   *)
(*         implementation returns;                                              *)
(* Part 3  a transcription of the implementation (its literal tables and        *)
(*         algorithms), used for B1 (FlavorsMC: the design satisfies Part 2),   *)
(*         for conformance diagnostics, and for the design switches.            *)
EXTENDS Rat

CONSTANTS
  QedSectorMap,   \* "unified": every unified sector has a map (intended design)
                  \* "qcd-fallback": sectors unknown to the QCD map are unavailable (the code)
  DeltaRows,      \* "orthogonalised": Sdelta/Vdelta of the active flavours (nd/nu weight)
                  \* "table-cut": row of the nf=6 table with heavy entries zeroed
  NormalizeOut,   \* TRUE: output weights w/(w.w) in the blow-up; FALSE must be refuted
  QcdOthCoef,     \* "nf-1": T_(nf^2-1) = S - (nf-1) h+ ... ; "nf" must be refuted
  NormalizeProj   \* TRUE: projection divides by e.e; FALSE must be refuted

N == 14
NfRange == 3..6
Pids == <<22, -6, -5, -4, -3, -2, -1, 21, 1, 2, 3, 4, 5, 6>>
Names == <<"ph", "tbar", "bbar", "cbar", "sbar", "ubar", "dbar", "g",
           "d", "u", "s", "c", "b", "t">>
Idx(pid) == CHOOSE j \in 1..N : Pids[j] = pid

(* PDG numbering: d=1 u=2 s=3 c=4 b=5 t=6 *)
Activation == <<2, 1, 3, 4, 5, 6>>      \* u d s c b t: order in which T_(k^2-1) absorb quarks
UpLike == <<2, 4, 6>>                   \* u c t
DownLike == <<1, 3, 5>>                 \* d s b
IsUp(q) == \E k \in 1..3 : UpLike[k] = q
NUp(nf) == Cardinality({k \in 1..3 : UpLike[k] <= nf})
NDown(nf) == nf - NUp(nf)

-----------------------------------------------------------------------------
(* Part 1: distributions from their meaning                                    *)

(* sum_q c[q] (q + sgn qbar) *)
PM(c, sgn) ==
  TLCEval([j \in 1..N |-> LET p == Pids[j]
                          IN IF p \in 1..6 THEN c[p]
                             ELSE IF -p \in 1..6 THEN RMul(RInt(sgn), c[-p]) ELSE RZero])

Gluon == UnitVec(N, Idx(21))
Photon == UnitVec(N, Idx(22))
(* S_(nf) / V_(nf): all light quarks *)
Total(nf, sgn) == PM([q \in 1..6 |-> IF q <= nf THEN ROne ELSE RZero], sgn)
(* ladder over an ordered family: ord[1] + ... + ord[k-1] - (k-1) ord[k] *)
Ladder(ord, k, sgn) ==
  PM([q \in 1..6 |-> IF \E j \in 1..(k - 1) : ord[j] = q THEN ROne
                     ELSE IF q = ord[k] THEN RInt(-(k - 1)) ELSE RZero], sgn)
(* Sigma_u - Sigma_d over the light quarks, made orthogonal to S_(nf): the weight of   *)
(* the up-like sum is the rational alpha with alpha nu - nd = 0 (docs: 2, 1, 3/2, 1)   *)
DeltaAlpha(nf) == RFrac(NDown(nf), NUp(nf))
Delta(nf, sgn) ==
  PM([q \in 1..6 |-> IF q > nf THEN RZero
                     ELSE IF IsUp(q) THEN DeltaAlpha(nf) ELSE RInt(-1)], sgn)
Single(q, sgn) == PM([p \in 1..6 |-> IF p = q THEN ROne ELSE RZero], sgn)

QcdT == ("T3" :> 2 @@ "T8" :> 3 @@ "T15" :> 4 @@ "T24" :> 5 @@ "T35" :> 6)
QcdV == ("V3" :> 2 @@ "V8" :> 3 @@ "V15" :> 4 @@ "V24" :> 5 @@ "V35" :> 6)
UniTu == ("Tu3" :> 2 @@ "Tu8" :> 3)
UniTd == ("Td3" :> 2 @@ "Td8" :> 3)
UniVu == ("Vu3" :> 2 @@ "Vu8" :> 3)
UniVd == ("Vd3" :> 2 @@ "Vd8" :> 3)
HeavyP == ("c+" :> 4 @@ "b+" :> 5 @@ "t+" :> 6)
HeavyM == ("c-" :> 4 @@ "b-" :> 5 @@ "t-" :> 6)

(* flavour content of a distribution when nf flavours are light *)
Dist(l, nf) ==
  CASE l = "ph" -> Photon
    [] l = "g" -> Gluon
    [] l = "S" -> Total(nf, 1)
    [] l = "V" -> Total(nf, -1)
    [] l = "Sdelta" -> Delta(nf, 1)
    [] l = "Vdelta" -> Delta(nf, -1)
    [] l \in DOMAIN QcdT -> Ladder(Activation, QcdT[l], 1)
    [] l \in DOMAIN QcdV -> Ladder(Activation, QcdV[l], -1)
    [] l \in DOMAIN UniTu -> Ladder(UpLike, UniTu[l], 1)
    [] l \in DOMAIN UniTd -> Ladder(DownLike, UniTd[l], 1)
    [] l \in DOMAIN UniVu -> Ladder(UpLike, UniVu[l], -1)
    [] l \in DOMAIN UniVd -> Ladder(DownLike, UniVd[l], -1)
    [] l \in DOMAIN HeavyP -> Single(HeavyP[l], 1)
    [] l \in DOMAIN HeavyM -> Single(HeavyM[l], -1)

(* the heaviest quark a ladder touches must be light for the ladder to be a basis element *)
LadderActive(ord, k, nf) == ord[k] <= nf

QcdLabels(nf) ==
  {"ph", "g", "S", "V"}
  \cup {l \in DOMAIN QcdT : LadderActive(Activation, QcdT[l], nf)}
  \cup {l \in DOMAIN QcdV : LadderActive(Activation, QcdV[l], nf)}
  \cup {l \in DOMAIN HeavyP : HeavyP[l] > nf} \cup {l \in DOMAIN HeavyM : HeavyM[l] > nf}
UniLabels(nf) ==
  {"ph", "g", "S", "V", "Sdelta", "Vdelta"}
  \cup {l \in DOMAIN UniTu : LadderActive(UpLike, UniTu[l], nf)}
  \cup {l \in DOMAIN UniTd : LadderActive(DownLike, UniTd[l], nf)}
  \cup {l \in DOMAIN UniVu : LadderActive(UpLike, UniVu[l], nf)}
  \cup {l \in DOMAIN UniVd : LadderActive(DownLike, UniVd[l], nf)}
  \cup {l \in DOMAIN HeavyP : HeavyP[l] > nf} \cup {l \in DOMAIN HeavyM : HeavyM[l] > nf}
(* the (intrinsic) evolution basis with nf light flavours; nf = 6: the evolution basis *)
Basis(nf, qed) == IF qed THEN UniLabels(nf) ELSE QcdLabels(nf)

AllLabels ==
  <<"ph", "g", "S", "Sdelta", "V", "Vdelta",
    "T3", "V3", "T8", "V8", "T15", "V15", "T24", "V24", "T35", "V35",
    "Td3", "Vd3", "Tu3", "Vu3", "Td8", "Vd8", "Tu8", "Vu8",
    "c+", "c-", "b+", "b-", "t+", "t-">>
BasisSeq(nf, qed) == SelectSeq(AllLabels, LAMBDA l : l \in Basis(nf, qed))
BasisRows(nf, qed) ==
  LET ls == BasisSeq(nf, qed) IN TLCEval([k \in 1..Len(ls) |-> Dist(ls[k], nf)])

(* active partons: gluon, light quarks and antiquarks, and the photon when QED is on *)
ActivePid(p, nf, qed) == p = 21 \/ (qed /\ p = 22) \/ (Abs(p) <= nf /\ p # 0)
ActiveIdentity(nf, qed) ==
  [i \in 1..N |-> [j \in 1..N |-> IF i = j /\ ActivePid(Pids[i], nf, qed) THEN ROne ELSE RZero]]

(* PID conventions of the evolution bases: 100 + (k^2-1) singlet-like, 200 + (k^2-1)    *)
(* valence-like, unified: +1 up-like, +2 down-like, Sdelta/Vdelta = 101/201              *)
Sq(k) == k * k - 1
EvolPid(l) ==
  CASE l = "ph" -> 22 [] l = "g" -> 21 [] l = "S" -> 100 [] l = "V" -> 200
    [] l = "Sdelta" -> 101 [] l = "Vdelta" -> 201
    [] l \in DOMAIN QcdT -> 100 + Sq(QcdT[l])
    [] l \in DOMAIN QcdV -> 200 + Sq(QcdV[l])
    [] l \in DOMAIN UniTu -> 100 + Sq(UniTu[l]) + 1
    [] l \in DOMAIN UniTd -> 100 + Sq(UniTd[l]) + 2
    [] l \in DOMAIN UniVu -> 200 + Sq(UniVu[l]) + 1
    [] l \in DOMAIN UniVd -> 200 + Sq(UniVd[l]) + 2

(* --- anomalous-dimension sectors ------------------------------------------------------ *)
(* singlet-like members are addressed by PID (g 21, ph 22, S 100, Sdelta 101), unified    *)
(* valence members by 10200 (V) / 10204 (Vdelta), diagonal non-singlet families by one id *)
SingName == (21 :> "g" @@ 22 :> "ph" @@ 100 :> "S" @@ 101 :> "Sdelta")
ValName == (10200 :> "V" @@ 10204 :> "Vdelta")
NsPlus == 10101   NsMinus == 10201   NsV == 10200
NsPlusU == 10102  NsPlusD == 10103   NsMinusU == 10202  NsMinusD == 10203

SectorLabels(qed) ==
  IF ~qed THEN {<<100, 100>>, <<100, 21>>, <<21, 100>>, <<21, 21>>,
                <<NsMinus, 0>>, <<NsPlus, 0>>, <<NsV, 0>>}
  ELSE {<<a, b>> : a \in DOMAIN SingName, b \in DOMAIN SingName}
       \cup {<<a, b>> : a \in DOMAIN ValName, b \in DOMAIN ValName}
       \cup {<<NsPlusU, 0>>, <<NsPlusD, 0>>, <<NsMinusU, 0>>, <<NsMinusD, 0>>}

DiagOver(fam, ord, nf) == {<<l, l>> : l \in {x \in DOMAIN fam : LadderActive(ord, fam[x], nf)}}
(* elements <<source, target>> of a sector when nf flavours are light *)
SectorElems(lab, nf, qed) ==
  IF lab[2] # 0
  THEN IF lab[1] \in DOMAIN SingName THEN {<<SingName[lab[1]], SingName[lab[2]]>>}
       ELSE {<<ValName[lab[1]], ValName[lab[2]]>>}
  ELSE CASE lab[1] = NsV -> {<<"V", "V">>}
         [] lab[1] = NsPlus -> DiagOver(QcdT, Activation, nf)
         [] lab[1] = NsMinus -> DiagOver(QcdV, Activation, nf)
         [] lab[1] = NsPlusU -> DiagOver(UniTu, UpLike, nf)
         [] lab[1] = NsPlusD -> DiagOver(UniTd, DownLike, nf)
         [] lab[1] = NsMinusU -> DiagOver(UniVu, UpLike, nf)
         [] lab[1] = NsMinusD -> DiagOver(UniVd, DownLike, nf)
ElemSeq(es) ==           \* the elements in a fixed order (each source occurs once in a sector)
  LET src == SelectSeq(AllLabels, LAMBDA l : \E e \in es : e[1] = l)
  IN [k \in 1..Len(src) |-> CHOOSE e \in es : e[1] = src[k]]
IsDiagonalSector(lab) == lab[2] = 0 \/ lab[1] = lab[2]
DiagonalSectors(qed) == {l \in SectorLabels(qed) : IsDiagonalSector(l)}

-----------------------------------------------------------------------------
(* Part 2: property predicates                                                 *)

(* ---- C31 ---------------------------------------------------------------------------- *)
(* rows mutually orthogonal and non-zero, hence invertible: the normalised transpose is  *)
(* an explicit two-sided inverse                                                         *)
C31_Orthogonal(R) ==
  /\ IsRatMat(R, N, N)
  /\ OrthogonalRows(R)
  /\ MatMul(R, PseudoInverse(R)) = Identity(N)
  /\ MatMul(PseudoInverse(R), R) = Identity(N)

C31_FlavourTable(pids, names) == pids = Pids /\ names = Names

Injective(s) == \A i, j \in 1..Len(s) : s[i] = s[j] => i = j
(* the label tuple, the PID tuple and the rows of a rotation table name the same 14      *)
(* distributions, each row being the flavour content its label stands for               *)
C31_LabelsOk(labels, qed) ==
  /\ Len(labels) = N /\ Injective(labels) /\ {labels[k] : k \in 1..N} = Basis(6, qed)
C31_PidsOk(labels, pids) ==
  /\ Len(pids) = Len(labels) /\ Injective(pids)
  /\ \A k \in 1..Len(labels) : pids[k] = EvolPid(labels[k])
C31_RowsOk(labels, R) == \A k \in 1..Len(labels) : R[k] = Dist(labels[k], 6)

(* the sector tables: keys are the sectors of the basis, members are the sector elements *)
C31_SectorKeys(keys, qed) == {keys[k] : k \in 1..Len(keys)} = SectorLabels(qed) /\ Injective(keys)
C31_SectorEntry(lab, elems, qed) ==
  /\ lab \in SectorLabels(qed)
  /\ {elems[k] : k \in 1..Len(elems)} = SectorElems(lab, 6, qed) /\ Injective(elems)

(* the grouping of the sectors: coupled singlet-like pairs, coupled valence-like pairs     *)
(* (unified basis only), diagonal non-singlet families                                    *)
C31_SectorGroups(sing, val, ns, qed) ==
  /\ Injective(sing \o val \o ns)
  /\ {sing[k] : k \in 1..Len(sing)} = {l \in SectorLabels(qed) : l[2] # 0 /\ l[1] \in DOMAIN SingName}
  /\ {val[k] : k \in 1..Len(val)} = {l \in SectorLabels(qed) : l[2] # 0 /\ l[1] \in DOMAIN ValName}
  /\ {ns[k] : k \in 1..Len(ns)} = {l \in SectorLabels(qed) : l[2] = 0}
(* the list of labels of the intrinsic unified basis with nf light flavours *)
C31_IntrinsicLabels(labels, nf, qed) ==
  Injective(labels) /\ {labels[k] : k \in 1..Len(labels)} = Basis(nf, qed)

(* a sector map P (acting on row vectors, x |-> x.P) sends each source distribution onto *)
(* its target and annihilates every other distribution of the evolution basis            *)
SectorImage(x, lab, nf, qed) ==
  LET hits == {e \in SectorElems(lab, nf, qed) : e[1] = x}
  IN IF hits = {} THEN ZeroVec(N) ELSE Dist((CHOOSE e \in hits : TRUE)[2], nf)
C31_SectorMap(P, lab, nf, qed) ==
  \A x \in Basis(nf, qed) : VecMat(Dist(x, nf), P) = SectorImage(x, lab, nf, qed)
(* name of the first distribution on which the map is wrong (for the verdict) *)
C31_SectorMapFailing(P, lab, nf, qed) ==
  CHOOSE x \in Basis(nf, qed) : VecMat(Dist(x, nf), P) # SectorImage(x, lab, nf, qed)

(* the map with these images on the complete basis is unique; written out from Part 1:   *)
(* sum over the elements of  source^T target / (source . source)                          *)
SectorMapRef(lab, nf, qed) ==
  LET es == ElemSeq(SectorElems(lab, nf, qed))
  IN MatSum([k \in 1..Len(es) |->
               LET s == Dist(es[k][1], nf)
               IN Outer(VScale(RInv(Dot(s, s)), s), Dist(es[k][2], nf))], N, N)

C31_Idempotent(P) == MatMul(P, P) = P
C31_MutuallyOrthogonal(Ps) ==
  \A i, j \in 1..Len(Ps) : i # j => MatMul(Ps[i], Ps[j]) = ZeroMat(N, N)
C31_Complete(Ps, nf, qed) == MatSum(Ps, N, N) = ActiveIdentity(nf, qed)
(* "available for every sector of the basis" *)
C31_Covers(cells) ==
  {cells[k] : k \in 1..Len(cells)} =
     {<<nf, 1, l[1], l[2]>> : nf \in NfRange, l \in SectorLabels(TRUE)}
     \cup {<<nf, 0, l[1], l[2]>> : nf \in NfRange, l \in SectorLabels(FALSE)}

(* ---- C32 ---------------------------------------------------------------------------- *)
(* ms: SET of members <<target, input, value>>, at most one value per (target, input);    *)
(* T[out][in] the flavour tensor.  Rout . T = E . Rin, with E the evolution-basis        *)
(* operator over (basis of nfout flavours) x (basis of nfin flavours) and Rout, Rin the  *)
(* flavour contents of those bases.  Rout is invertible (C31), so this fixes             *)
(* T = Rout^-1 E Rin: the change of basis restricted to the active flavours, the heavy   *)
(* quarks entering through q+ and q-.                                                    *)
KnownLabels == {AllLabels[k] : k \in 1..Len(AllLabels)}
PairSeq == [k \in 1..(Len(AllLabels) * Len(AllLabels)) |->
              <<AllLabels[((k - 1) \div Len(AllLabels)) + 1], AllLabels[((k - 1) % Len(AllLabels)) + 1]>>]
Functional(ms) == \A x, y \in ms : (x[1] = y[1] /\ x[2] = y[2]) => x = y
TripleSeq(ms) ==         \* the triples in a fixed order (for sums)
  LET ps == SelectSeq(PairSeq, LAMBDA p : \E m \in ms : m[1] = p[1] /\ m[2] = p[2])
  IN [k \in 1..Len(ps) |-> CHOOSE m \in ms : m[1] = ps[k][1] /\ m[2] = ps[k][2]]
MemberValue(ms, t, i) ==
  LET S == {m \in ms : m[1] = t /\ m[2] = i}
  IN IF S = {} THEN RZero ELSE (CHOOSE m \in S : TRUE)[3]
EvolOperator(ms, nfin, nfout, qed) ==
  LET lo == BasisSeq(nfout, qed)
      li == BasisSeq(nfin, qed)
  IN TLCEval([a \in 1..Len(lo) |-> [b \in 1..Len(li) |-> MemberValue(ms, lo[a], li[b])]])
C32_LabelsInBasis(ms, nfin, nfout, qed) ==
  /\ Functional(ms)
  /\ \A m \in ms : m[1] \in Basis(nfout, qed) /\ m[2] \in Basis(nfin, qed) /\ IsRat(m[3])
C32_BlowUp(T, ms, nfin, nfout, qed) ==
  /\ IsRatMat(T, N, N)
  /\ C32_LabelsInBasis(ms, nfin, nfout, qed)
  /\ MatMul(BasisRows(nfout, qed), T) = MatMul(EvolOperator(ms, nfin, nfout, qed), BasisRows(nfin, qed))

(* weights of a distribution on input (plain) and output (normalised) side *)
C32_Weights(w, l, nf, normalize) ==
  LET d == Dist(l, nf)
  IN w = IF normalize THEN VScale(RInv(Dot(d, d)), d) ELSE d

(* which member sits on which element: every element of a sector evolves with the        *)
(* sector's kernel, the non-participating heavy quarks with the identity (value 1)       *)
HeavyAbove(nf) == {l \in DOMAIN HeavyP : HeavyP[l] > nf} \cup {l \in DOMAIN HeavyM : HeavyM[l] > nf}
AdValue(ad, lab) == (CHOOSE k \in 1..Len(ad) : <<ad[k][1], ad[k][2]>> = lab)
AdHas(ad, lab) == \E k \in 1..Len(ad) : <<ad[k][1], ad[k][2]>> = lab
PhysicalMembersOf(ad, nf, qed) ==
  UNION {{<<e[1], e[2], RInt(ad[AdValue(ad, lab)][3])>> : e \in SectorElems(lab, nf, qed)} :
            lab \in SectorLabels(qed)}
  \cup {<<h, h, ROne>> : h \in HeavyAbove(nf)}
C32_PhysicalMap(ms, ad, nf, qed) ==
  /\ \A lab \in SectorLabels(qed) : AdHas(ad, lab)
  /\ ms = PhysicalMembersOf(ad, nf, qed)

(* matching at the threshold of quark h = nf+1: singlet block, all active non-singlets   *)
(* with A_ns = (200,200), photon untouched (QED), h+ <- S, g, h+ ; S, g <- h+ ; h- <- h- *)
HPlusLabel(nf) == CHOOSE l \in DOMAIN HeavyP : HeavyP[l] = nf + 1
HMinusLabel(nf) == CHOOSE l \in DOMAIN HeavyM : HeavyM[l] = nf + 1
NonSingletActive(nf, qed) ==
  Basis(nf, qed) \ ({"ph", "g", "S"} \cup HeavyAbove(nf))
OmeVal(ome, a, b) == RInt(ome[AdValue(ome, <<a, b>>)][3])
MatchingMembersOf(ome, nf, qed) ==
  {<<"S", "S", OmeVal(ome, 100, 100)>>, <<"S", "g", OmeVal(ome, 100, 21)>>,
   <<"g", "S", OmeVal(ome, 21, 100)>>, <<"g", "g", OmeVal(ome, 21, 21)>>}
  \cup {<<l, l, OmeVal(ome, 200, 200)>> : l \in NonSingletActive(nf, qed)}
  \cup (IF qed THEN {<<"ph", "ph", ROne>>} ELSE {})
  \cup {<<HPlusLabel(nf), "S", OmeVal(ome, 90, 100)>>, <<HPlusLabel(nf), "g", OmeVal(ome, 90, 21)>>,
        <<HPlusLabel(nf), HPlusLabel(nf), OmeVal(ome, 90, 90)>>,
        <<"S", HPlusLabel(nf), OmeVal(ome, 100, 90)>>, <<"g", HPlusLabel(nf), OmeVal(ome, 21, 90)>>,
        <<HMinusLabel(nf), HMinusLabel(nf), OmeVal(ome, 91, 91)>>}
  \cup {<<h, h, ROne>> : h \in HeavyAbove(nf + 1)}
C32_MatchingMap(ms, ome, nf, qed) == ms = MatchingMembersOf(ome, nf, qed)

(* light-flavour numbers a label set lives in: largest ladder on either side *)
LabelNf(l) ==
  CASE l \in DOMAIN QcdT -> Activation[QcdT[l]]
    [] l \in DOMAIN QcdV -> Activation[QcdV[l]]
    [] l \in DOMAIN UniTu -> UpLike[UniTu[l]]
    [] l \in DOMAIN UniVu -> UpLike[UniVu[l]]
    [] l \in DOMAIN UniTd -> DownLike[UniTd[l]]
    [] l \in DOMAIN UniVd -> DownLike[UniVd[l]]
    [] OTHER -> 3
MaxOf(S) == CHOOSE m \in S : \A x \in S : x <= m
(* labs: set of <<target, input>> *)
C32_Range(got, labs) ==
  /\ got[1] = MaxOf({3} \cup {LabelNf(p[2]) : p \in labs})
  /\ got[2] = MaxOf({3} \cup {LabelNf(p[1]) : p \in labs})

(* ---- C33 ---------------------------------------------------------------------------- *)
(* M: SET of <<new, old, coefficient>>, new in the basis of nf flavours, old in the      *)
(* matching basis = basis of nf-1 flavours (it contains h+ and h- of the new quark)      *)
CoefOf(M, x, y) == MemberValue(M, x, y)
Content(M, x, nfold, qed) ==
  LET old == BasisSeq(nfold, qed)
  IN VSum([k \in 1..Len(old) |-> VScale(CoefOf(M, x, old[k]), Dist(old[k], nfold))], N)
C33_Labels(M, nfnew, nfold, qed) ==
  /\ Functional(M)
  /\ \A m \in M : IsRat(m[3]) /\ m[1] \in Basis(nfnew, qed) /\ m[2] \in Basis(nfold, qed)
C33_FlavourContent(M, nf, qed) ==
  \A x \in Basis(nf, qed) : Content(M, x, nf - 1, qed) = Dist(x, nf)
C33_FlavourContentFailing(M, nf, qed) ==
  CHOOSE x \in Basis(nf, qed) : Content(M, x, nf - 1, qed) # Dist(x, nf)
AsMatrix(M, rows, cols) ==
  TLCEval([a \in 1..Len(rows) |-> [b \in 1..Len(cols) |-> CoefOf(M, rows[a], cols[b])]])
C33_Inverse(M, Minv, nf, qed) ==
  LET new == BasisSeq(nf, qed)
      old == BasisSeq(nf - 1, qed)
      A == AsMatrix(M, new, old)
      B == AsMatrix(Minv, old, new)
  IN MatMul(B, A) = Identity(N) /\ MatMul(A, B) = Identity(N)
C33_Threshold(M, Minv, nf, qed) ==
  /\ C33_Labels(M, nf, nf - 1, qed) /\ C33_Labels(Minv, nf - 1, nf, qed)
  /\ C33_FlavourContent(M, nf, qed)
  /\ C33_Inverse(M, Minv, nf, qed)

(* ---- C46 ---------------------------------------------------------------------------- *)
(* reprs: sequence of row vectors; X, Y: 14 x m matrices (flavour x points), Y = result  *)
C46_PidReprs(out, pids) ==
  /\ Len(out) = Len(pids) /\ \A k \in 1..Len(pids) : out[k] = UnitVec(N, Idx(pids[k]))
C46_EvolReprs(out, labels) ==
  /\ Len(out) = Len(labels) /\ \A k \in 1..Len(labels) : out[k] = Dist(labels[k], 6)
C46_Family(reprs) ==        \* the hypothesis: an orthogonal family of non-zero combinations
  (\A k \in 1..Len(reprs) : IsRatVec(reprs[k], N)) /\ (reprs = <<>> \/ OrthogonalRows(reprs))
(* the components along the selected combinations are kept *)
C46_Keeps(reprs, X, Y) == \A k \in 1..Len(reprs) : VecMat(reprs[k], Y) = VecMat(reprs[k], X)
(* nothing orthogonal to the selection survives: the result lies in the span of the     *)
(* family, i.e. it is recovered from its components along the (orthogonal) combinations  *)
Reconstruct(reprs, Y) ==
  MatSum([k \in 1..Len(reprs) |->
            Outer(VScale(RInv(Dot(reprs[k], reprs[k])), reprs[k]), VecMat(reprs[k], Y))], N, Cols(Y))
C46_Removes(reprs, Y) == Y = Reconstruct(reprs, Y)
C46_Projection(reprs, X, Y, Y2) ==
  /\ C46_Keeps(reprs, X, Y)
  /\ C46_Removes(reprs, Y)
  /\ Y2 = Y                                              \* idempotent
  /\ (Len(reprs) = N => Y = X)                           \* complete orthogonal set
C46_Failing(reprs, X, Y, Y2) ==
  IF ~C46_Keeps(reprs, X, Y) THEN "keeps"
  ELSE IF ~C46_Removes(reprs, Y) THEN "removes-orthogonal"
  ELSE IF Y2 # Y THEN "idempotent" ELSE "complete-set-identity"
(* loading a block into flavour space: listed PIDs at their position, zero elsewhere *)
LoadBlock(pids, data, m) ==
  [j \in 1..N |-> LET S == {k \in 1..Len(pids) : pids[k] = Pids[j]}
                  IN IF S = {} THEN ZeroVec(m) ELSE IntVec(data[CHOOSE k \in S : \A x \in S : x <= k])]

-----------------------------------------------------------------------------
(* Part 3: transcription of the implementation                                 *)

(* basis_rotation.py: the literal tables *)
CodeEvolBasis == <<"ph", "S", "g", "V", "V3", "V8", "V15", "V24", "V35",
                   "T3", "T8", "T15", "T24", "T35">>
CodeUniBasis == <<"g", "ph", "S", "Sdelta", "V", "Vdelta", "Td3", "Vd3", "Tu3", "Vu3",
                  "Td8", "Vd8", "Tu8", "Vu8">>
CodeRotQcd == IntMat(<<
  <<1, 0, 0, 0, 0, 0, 0, 0, 0, 0, 0, 0, 0, 0>>,
  <<0, 1, 1, 1, 1, 1, 1, 0, 1, 1, 1, 1, 1, 1>>,
  <<0, 0, 0, 0, 0, 0, 0, 1, 0, 0, 0, 0, 0, 0>>,
  <<0, -1, -1, -1, -1, -1, -1, 0, 1, 1, 1, 1, 1, 1>>,
  <<0, 0, 0, 0, 0, -1, 1, 0, -1, 1, 0, 0, 0, 0>>,
  <<0, 0, 0, 0, 2, -1, -1, 0, 1, 1, -2, 0, 0, 0>>,
  <<0, 0, 0, 3, -1, -1, -1, 0, 1, 1, 1, -3, 0, 0>>,
  <<0, 0, 4, -1, -1, -1, -1, 0, 1, 1, 1, 1, -4, 0>>,
  <<0, 5, -1, -1, -1, -1, -1, 0, 1, 1, 1, 1, 1, -5>>,
  <<0, 0, 0, 0, 0, 1, -1, 0, -1, 1, 0, 0, 0, 0>>,
  <<0, 0, 0, 0, -2, 1, 1, 0, 1, 1, -2, 0, 0, 0>>,
  <<0, 0, 0, -3, 1, 1, 1, 0, 1, 1, 1, -3, 0, 0>>,
  <<0, 0, -4, 1, 1, 1, 1, 0, 1, 1, 1, 1, -4, 0>>,
  <<0, -5, 1, 1, 1, 1, 1, 0, 1, 1, 1, 1, 1, -5>> >>)
CodeRotUni == IntMat(<<
  <<0, 0, 0, 0, 0, 0, 0, 1, 0, 0, 0, 0, 0, 0>>,
  <<1, 0, 0, 0, 0, 0, 0, 0, 0, 0, 0, 0, 0, 0>>,
  <<0, 1, 1, 1, 1, 1, 1, 0, 1, 1, 1, 1, 1, 1>>,
  <<0, 1, -1, 1, -1, 1, -1, 0, -1, 1, -1, 1, -1, 1>>,
  <<0, -1, -1, -1, -1, -1, -1, 0, 1, 1, 1, 1, 1, 1>>,
  <<0, -1, 1, -1, 1, -1, 1, 0, -1, 1, -1, 1, -1, 1>>,
  <<0, 0, 0, 0, -1, 0, 1, 0, 1, 0, -1, 0, 0, 0>>,
  <<0, 0, 0, 0, 1, 0, -1, 0, 1, 0, -1, 0, 0, 0>>,
  <<0, 0, 0, -1, 0, 1, 0, 0, 0, 1, 0, -1, 0, 0>>,
  <<0, 0, 0, 1, 0, -1, 0, 0, 0, 1, 0, -1, 0, 0>>,
  <<0, 0, -2, 0, 1, 0, 1, 0, 1, 0, 1, 0, -2, 0>>,
  <<0, 0, 2, 0, -1, 0, -1, 0, 1, 0, 1, 0, -2, 0>>,
  <<0, -2, 0, 1, 0, 1, 0, 0, 0, 1, 0, 1, 0, -2>>,
  <<0, 2, 0, -1, 0, -1, 0, 0, 0, 1, 0, 1, 0, -2>> >>)
PosIn(s, x) == CHOOSE k \in 1..Len(s) : s[k] = x
CodeRow(l, qed) == IF qed THEN CodeRotUni[PosIn(CodeUniBasis, l)] ELSE CodeRotQcd[PosIn(CodeEvolBasis, l)]
(* zero the heavy quark entries (and, in ad_projector, the first slot = photon) *)
CutHeavy(w, nf) == TLCEval([j \in 1..N |-> IF nf < Abs(Pids[j]) /\ Abs(Pids[j]) <= 6 THEN RZero ELSE w[j]])
CutProj(w, nf) == TLCEval([j \in 1..N |-> IF j <= 1 + (6 - nf) \/ j > N - (6 - nf) THEN RZero ELSE w[j]])

(* flavors.py: rotate_pm_to_flavor, pids_from_intrinsic_evol, pids_from_intrinsic_unified_evol *)
RotatePm(l) ==
  CASE l = "g" -> CodeRow("g", FALSE) [] l = "ph" -> CodeRow("ph", FALSE)
    [] l \in DOMAIN HeavyP -> Single(HeavyP[l], 1)
    [] l \in DOMAIN HeavyM -> Single(HeavyM[l], -1)
Normalized(w) == VScale(RInv(Dot(w, w)), w)
InCodeEvol(l) == \E k \in 1..N : CodeEvolBasis[k] = l
PidsFromIntrinsicEvol(l, nf, normalize) ==
  LET w == IF InCodeEvol(l) THEN CutHeavy(CodeRow(l, FALSE), nf) ELSE RotatePm(l)
  IN IF normalize THEN Normalized(w) ELSE w
CodeDelta(nf, sgn) ==       \* the literal per-nf table of the "delta" entry
  LET c == CASE nf = 3 -> <<-1, 2, -1, 0, 0, 0>>
             [] nf = 4 -> <<-1, 1, -1, 1, 0, 0>>
             [] nf = 5 -> <<-2, 3, -2, 3, -2, 0>>          \* times 1/2
             [] nf = 6 -> <<-1, 1, -1, 1, -1, 1>>
      den == IF nf = 5 THEN 2 ELSE 1
  IN PM([q \in 1..6 |-> RFrac(c[q], den)], sgn)
IntPM(c, sgn) == PM([q \in 1..6 |-> RInt(c[q])], sgn)
PidsFromIntrinsicUnifiedEvol(l, nf, normalize) ==
  IF l \in {"ph", "g", "S", "V"} THEN PidsFromIntrinsicEvol(l, nf, normalize)
  ELSE LET w == CASE l \in DOMAIN HeavyP \cup DOMAIN HeavyM -> RotatePm(l)
                  [] l = "Sdelta" -> CodeDelta(nf, 1)
                  [] l = "Vdelta" -> CodeDelta(nf, -1)
                  [] l = "Td3" -> IntPM(<<1, 0, -1, 0, 0, 0>>, 1)
                  [] l = "Vd3" -> IntPM(<<1, 0, -1, 0, 0, 0>>, -1)
                  [] l = "Td8" -> IntPM(<<1, 0, 1, 0, -2, 0>>, 1)
                  [] l = "Vd8" -> IntPM(<<1, 0, 1, 0, -2, 0>>, -1)
                  [] l = "Tu3" -> IntPM(<<0, 1, 0, -1, 0, 0>>, 1)
                  [] l = "Vu3" -> IntPM(<<0, 1, 0, -1, 0, 0>>, -1)
                  [] l = "Tu8" -> IntPM(<<0, 1, 0, 1, 0, -2>>, 1)
                  [] l = "Vu8" -> IntPM(<<0, 1, 0, 1, 0, -2>>, -1)
       IN IF normalize THEN Normalized(w) ELSE w

(* member.py: to_flavor_basis_tensor on scalar members *)
Weights(l, nf, qed, normalize) ==
  IF qed THEN PidsFromIntrinsicUnifiedEvol(l, nf, normalize) ELSE PidsFromIntrinsicEvol(l, nf, normalize)
GetRange(ms) ==
  <<MaxOf({3} \cup {LabelNf(m[2]) : m \in ms}), MaxOf({3} \cup {LabelNf(m[1]) : m \in ms})>>
ToFlavorTensor(ms, qed) ==
  LET r == GetRange(ms)
      sq == TripleSeq(ms)
  IN MatSum([k \in 1..Len(sq) |->
               Outer(VScale(sq[k][3], Weights(sq[k][1], r[2], qed, NormalizeOut)),
                     Weights(sq[k][2], r[1], qed, FALSE))], N, N)

(* basis_rotation.py: ad_projector.  The intended unified branch uses the unified sector *)
(* map; the code as it stands looks unknown sectors up in the QCD map (KeyError).         *)
Available(lab, qed) ==
  \/ ~qed
  \/ QedSectorMap = "unified"
  \/ lab \in SectorLabels(FALSE) \/ lab[2] = 0      \* what the QCD fallback can serve
ProjRow(l, nf, qed) ==
  IF ~qed THEN CutProj(CodeRow(l, FALSE), nf)
  ELSE IF l \in {"Sdelta", "Vdelta"} /\ DeltaRows = "orthogonalised"
       THEN CodeDelta(nf, IF l = "Sdelta" THEN 1 ELSE -1)
       ELSE IF l = "ph" THEN CodeRow(l, TRUE) ELSE CutProj(CodeRow(l, TRUE), nf)
AdProjector(lab, nf, qed) ==
  LET seqOf == ElemSeq(SectorElems(lab, nf, qed))
  IN MatSum([k \in 1..Len(seqOf) |->
               LET o == ProjRow(seqOf[k][1], nf, qed)
                   i == ProjRow(seqOf[k][2], nf, qed)
               IN MatScale(RInv(Dot(o, o)), Outer(o, i))], N, N)

(* flavors.py: qed_rotation_parameters, rotate_matching *)
QedRotationParameters(nf) ==
  LET nul == (nf - 1) \div 2
      ndl == (nf - 1) - nul
      nuh == nf \div 2
      ndh == nf - nuh
      a == RDiv(RSub(RMul(RFrac(ndh, nuh), RInt(nul)), RInt(ndl)), RInt(nf - 1))
      b == RDiv(RMul(RFrac(nf, nuh), RInt(nul)), RInt(nf - 1))
      up == nf \in {4, 6}
      c == IF up THEN RFrac(ndh, nuh) ELSE RInt(-1)
      d == IF up THEN RFrac(nul, nf - 1) ELSE RFrac(ndl, nf - 1)
      e == IF up THEN RFrac(nul, nf - 1) ELSE RFrac(-nul, nf - 1)
      f == IF nf \in {3, 4} THEN RInt(-1) ELSE RInt(-2)
  IN <<a, b, c, d, e, f>>
QedNames == (3 :> "d3" @@ 4 :> "u3" @@ 5 :> "d8" @@ 6 :> "u8")
QcdTLabel(k) == CHOOSE l \in DOMAIN QcdT : QcdT[l] = k
QcdVLabel(k) == CHOOSE l \in DOMAIN QcdV : QcdV[l] = k
UniLabel(pre, nf) == pre \o QedNames[nf]
RotateMatching(nf, qed, inverse) ==
  LET hp == CHOOSE l \in DOMAIN HeavyP : HeavyP[l] = nf
      hm == CHOOSE l \in DOMAIN HeavyM : HeavyM[l] = nf
      higher == {<<l, l, ROne>> : l \in HeavyAbove(nf)}
      common == {<<"g", "g", ROne>>, <<"ph", "ph", ROne>>} \cup higher
  IN IF ~qed
     THEN LET old == {<<QcdTLabel(k), QcdTLabel(k), ROne>> : k \in 2..(nf - 1)}
                     \cup {<<QcdVLabel(k), QcdVLabel(k), ROne>> : k \in 2..(nf - 1)}
              oc == IF QcdOthCoef = "nf-1" THEN nf - 1 ELSE nf
              blk(tot, oth, qpm) ==
                IF inverse
                THEN {<<tot, tot, RFrac(nf - 1, nf)>>, <<tot, oth, RFrac(1, nf)>>,
                      <<qpm, tot, RFrac(1, nf)>>, <<qpm, oth, RFrac(-1, nf)>>}
                ELSE {<<tot, tot, ROne>>, <<tot, qpm, ROne>>,
                      <<oth, tot, ROne>>, <<oth, qpm, RInt(-oc)>>}
          IN common \cup old \cup blk("S", QcdTLabel(nf), hp) \cup blk("V", QcdVLabel(nf), hm)
     ELSE LET old == {<<UniLabel("V", k), UniLabel("V", k), ROne>> : k \in 3..(nf - 1)}
                     \cup {<<UniLabel("T", k), UniLabel("T", k), ROne>> : k \in 3..(nf - 1)}
              p == QedRotationParameters(nf)
              a == p[1]  b == p[2]  c == p[3]  d == p[4]  e == p[5]  f == p[6]
              den == RAdd(RSub(RSub(RMul(a, e), RMul(b, d)), RMul(c, e)), RMul(b, f))
              blk(tot, totd, oth, qpm) ==
                IF inverse
                THEN {<<tot, tot, RDiv(RNeg(RSub(RMul(c, e), RMul(b, f))), den)>>,
                      <<tot, totd, RDiv(e, den)>>,
                      <<tot, oth, RDiv(RNeg(b), den)>>,
                      <<totd, tot, RDiv(RSub(RMul(c, d), RMul(a, f)), den)>>,
                      <<totd, totd, RDiv(RSub(f, d), den)>>,
                      <<totd, oth, RDiv(RSub(a, c), den)>>,
                      <<qpm, tot, RDiv(RSub(RMul(a, e), RMul(b, d)), den)>>,
                      <<qpm, totd, RDiv(RNeg(e), den)>>,
                      <<qpm, oth, RDiv(b, den)>>}
                ELSE {<<tot, tot, ROne>>, <<tot, qpm, ROne>>,
                      <<totd, tot, a>>, <<totd, totd, b>>, <<totd, qpm, c>>,
                      <<oth, tot, d>>, <<oth, totd, e>>, <<oth, qpm, f>>}
          IN common \cup old \cup blk("S", "Sdelta", UniLabel("T", nf), hp)
                    \cup blk("V", "Vdelta", UniLabel("V", nf), hm)

(* genpdf/flavors.py: project *)
Project(reprs, X) ==
  MatSum([k \in 1..Len(reprs) |->
            LET e == reprs[k]
                P == MatMul(Outer(e, e), X)
            IN IF NormalizeProj THEN MatScale(RInv(Dot(e, e)), P) ELSE P], N, Cols(X))
=============================================================================
