CONSTANT DVariant = "fixed_mass"
INIT Init
NEXT Next
INVARIANT InvLogs
INVARIANT InvConstants
INVARIANT InvDecimals
CHECK_DEADLOCK FALSE
