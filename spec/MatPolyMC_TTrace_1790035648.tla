---- MODULE MatPolyMC_TTrace_1790035648 ----
EXTENDS Sequences, TLCExt, Toolbox, Naturals, TLC, MatPolyMC

_expression ==
    LET MatPolyMC_TEExpression == INSTANCE MatPolyMC_TEExpression
    IN MatPolyMC_TEExpression!expression
----

_trace ==
    LET MatPolyMC_TETrace == INSTANCE MatPolyMC_TETrace
    IN MatPolyMC_TETrace!trace
----

_inv ==
    ~(
        TLCGet("level") = Len(_TETrace)
        /\
        x = ([kind |-> "ome", A1 |-> <<<<0, 0>>, <<0, 1>>>>, A2 |-> <<<<0, 0>>, <<0, 0>>>>, A3 |-> <<<<0, 0>>, <<0, 0>>>>])
    )
----

_init ==
    /\ x = _TETrace[1].x
----

_next ==
    /\ \E i,j \in DOMAIN _TETrace:
        /\ \/ /\ j = i + 1
              /\ i = TLCGet("level")
        /\ x  = _TETrace[i].x
        /\ x' = _TETrace[j].x

\* Uncomment the ASSUME below to write the states of the error trace
\* to the given file in Json format. Note that you can pass any tuple
\* to `JsonSerialize`. For example, a sub-sequence of _TETrace.
    \* ASSUME
    \*     LET J == INSTANCE Json
    \*         IN J!JsonSerialize("MatPolyMC_TTrace_1790035648.json", _TETrace)

=============================================================================

 Note that you can extract this module `MatPolyMC_TEExpression`
  to a dedicated file to reuse `expression` (the module in the 
  dedicated `MatPolyMC_TEExpression.tla` file takes precedence 
  over the module `MatPolyMC_TEExpression` below).

---- MODULE MatPolyMC_TEExpression ----
EXTENDS Sequences, TLCExt, Toolbox, Naturals, TLC, MatPolyMC

expression == 
    [
        \* To hide variables of the `MatPolyMC` spec from the error trace,
        \* remove the variables below.  The trace will be written in the order
        \* of the fields of this record.
        x |-> x
        
        \* Put additional constant-, state-, and action-level expressions here:
        \* ,_stateNumber |-> _TEPosition
        \* ,_xUnchanged |-> x = x'
        
        \* Format the `x` variable as Json value.
        \* ,_xJson |->
        \*     LET J == INSTANCE Json
        \*     IN J!ToJson(x)
        
        \* Lastly, you may build expressions over arbitrary sets of states by
        \* leveraging the _TETrace operator.  For example, this is how to
        \* count the number of times a spec variable changed up to the current
        \* state in the trace.
        \* ,_xModCount |->
        \*     LET F[s \in DOMAIN _TETrace] ==
        \*         IF s = 1 THEN 0
        \*         ELSE IF _TETrace[s].x # _TETrace[s-1].x
        \*             THEN 1 + F[s-1] ELSE F[s-1]
        \*     IN F[_TEPosition - 1]
    ]

=============================================================================



Parsing and semantic processing can take forever if the trace below is long.
 In this case, it is advised to uncomment the module below to deserialize the
 trace from a generated binary file.

\*
\*---- MODULE MatPolyMC_TETrace ----
\*EXTENDS IOUtils, TLC, MatPolyMC
\*
\*trace == IODeserialize("MatPolyMC_TTrace_1790035648.bin", TRUE)
\*
\*=============================================================================
\*

---- MODULE MatPolyMC_TETrace ----
EXTENDS TLC, MatPolyMC

trace == 
    <<
    ([x |-> [c |-> 0, kind |-> "seed", of |-> "ome", A1 |-> <<<<0, 0>>, <<0, 1>>>>]]),
    ([x |-> [kind |-> "ome", A1 |-> <<<<0, 0>>, <<0, 1>>>>, A2 |-> <<<<0, 0>>, <<0, 0>>>>, A3 |-> <<<<0, 0>>, <<0, 0>>>>]])
    >>
----


=============================================================================

---- CONFIG MatPolyMC_TTrace_1790035648 ----
CONSTANTS
    Variant = "cube_sign"
    Tier = "quick"

INVARIANT
    _inv

CHECK_DEADLOCK
    \* CHECK_DEADLOCK off because of PROPERTY or INVARIANT above.
    FALSE

INIT
    _init

NEXT
    _next

CONSTANT
    _TETrace <- _trace

ALIAS
    _expression
=============================================================================
\* Generated on Tue Sep 22 00:07:37 UTC 2026