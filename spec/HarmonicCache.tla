--------------------------- MODULE HarmonicCache ---------------------------
(* Mode S, cache clause of C24.                                                *)
(*                                                                             *)
(* Transcription of ekore.harmonics.cache.get (src/ekore/harmonics/cache.py):  *)
(* 31 slots, each NaN or filled; one branch per key with the dependency        *)
(* look-ups (`update`, `update_Sm1`, `update_Sm2`) it performs before it       *)
(* stores its own slot.  Values are symbolic terms  [f, a, p] :                *)
(*   f  the function ("S1", "Sm21", "g3", ...),                                *)
(*   a  the argument form: "n" | "h" = n/2 | "mh" = (n-1)/2 | "ph" = (n+1)/2   *)
(*      | "p2" = n+2,                                                          *)
(*   p  the parity flag baked into the value ("-" for parity-free functions).  *)
(* The leaf functions (w1..w5, g_functions.mellin_g3, recursive_harmonic_sum)  *)
(* are typed: applied to the arguments their signature documents they return   *)
(* the term they are documented to return, applied to anything else they       *)
(* return Bad.  Canon(k, par) is written from the key register of the module   *)
(* (which sum at which argument each key denotes), not from the branches.      *)
(* C24_Cache: after any sequence of get(k, par) with one parity flag every     *)
(* filled slot holds Canon(k, par) and every reply equals Canon(k, par).       *)
EXTENDS Naturals, Sequences, FiniteSets, TLC

CONSTANTS
  MixedParity,   \* design switch (vacuity guard): the flag may change between calls
  Mutation       \* "none" | a named mutated transcription that TLC must refute

(* key register, in index order (cache.S1 = 0, ..., cache.g3p2 = 30) *)
KeySeq == << "S1", "S2", "S3", "S4", "S5", "Sm1", "Sm2", "Sm3", "Sm4", "Sm5",
             "S21", "S2m1", "Sm21", "Sm2m1", "S31", "Sm31", "Sm22", "S211", "Sm211",
             "S1h", "S2h", "S3h", "S1mh", "S2mh", "S3mh", "S1ph", "S2ph", "S3ph",
             "g3", "S1p2", "g3p2" >>
Keys == {KeySeq[i] : i \in 1..Len(KeySeq)}
Parities == {"S", "NS", "None"}      \* is_singlet = True | False | None

T(f, a)     == [f |-> f, a |-> a, p |-> "-"]
TP(f, a, p) == [f |-> f, a |-> a, p |-> p]
NaN == [f |-> "NaN", a |-> "-", p |-> "-"]
Bad == [f |-> "BAD", a |-> "-", p |-> "-"]

(* ---------------------------------------------------------------------------*)
(* what each key denotes                                                       *)
(* ---------------------------------------------------------------------------*)
ParityDependent == {"Sm1", "Sm2", "Sm3", "Sm4", "Sm5", "S2m1", "Sm21", "Sm2m1",
                    "Sm31", "Sm22", "Sm211"}
CanonFn(k) ==
  CASE k \in {"S1h", "S1mh", "S1ph", "S1p2"} -> "S1"
    [] k \in {"S2h", "S2mh", "S2ph"} -> "S2"
    [] k \in {"S3h", "S3mh", "S3ph"} -> "S3"
    [] k = "g3p2" -> "g3"
    [] OTHER -> k
CanonArg(k) ==
  CASE k \in {"S1h", "S2h", "S3h"} -> "h"
    [] k \in {"S1mh", "S2mh", "S3mh"} -> "mh"
    [] k \in {"S1ph", "S2ph", "S3ph"} -> "ph"
    [] k \in {"S1p2", "g3p2"} -> "p2"
    [] OTHER -> "n"
Canon(k, par) == IF k \in ParityDependent THEN TP(CanonFn(k), "n", par)
                 ELSE T(CanonFn(k), CanonArg(k))
CanonTable == [k \in Keys |-> [fn |-> CanonFn(k), arg |-> CanonArg(k),
                              pdep |-> k \in ParityDependent]]

(* ---------------------------------------------------------------------------*)
(* typed leaf functions                                                        *)
(* ---------------------------------------------------------------------------*)
SName(w) == CASE w = 1 -> "S1" [] w = 2 -> "S2" [] w = 3 -> "S3" [] w = 4 -> "S4" [] w = 5 -> "S5"
SmName(w) == CASE w = 1 -> "Sm1" [] w = 2 -> "Sm2" [] w = 3 -> "Sm3" [] w = 4 -> "Sm4" [] w = 5 -> "Sm5"
Sw(w, a) == T(SName(w), a)                      \* w1.S1(x) ... w5.S5(x)
(* recursive_harmonic_sum(base, x, iterations, weight) = S_w(x + iterations) *)
Shift(a, it) == CASE a = "mh" /\ it = 1 -> "ph"
                  [] a = "n" /\ it = 2 -> "p2"
                  [] OTHER -> "?"
Rec(base, a, it, w) == IF base = Sw(w, a) /\ Shift(a, it) # "?" THEN Sw(w, Shift(a, it)) ELSE Bad
(* w_k.Sm_k(n, S_k(n), S_k((n-1)/2), S_k(n/2), is_singlet) *)
Smw(w, s, smh, sh, par) ==
  IF s = Sw(w, "n") /\ smh = Sw(w, "mh") /\ sh = Sw(w, "h") THEN TP(SmName(w), "n", par) ELSE Bad
(* mellin_g3(x, S1(x)) *)
G3(a, s1) == IF s1 = Sw(1, a) THEN T("g3", a) ELSE Bad
IsS(v, w) == v = Sw(w, "n")
IsSm(v, w, par) == v = TP(SmName(w), "n", par)
FS21(s1, s2) == IF IsS(s1, 1) /\ IsS(s2, 2) THEN T("S21", "n") ELSE Bad
FS31(s1, s2, s3, s4) == IF IsS(s1, 1) /\ IsS(s2, 2) /\ IsS(s3, 3) /\ IsS(s4, 4) THEN T("S31", "n") ELSE Bad
FS211(s1, s2, s3) == IF IsS(s1, 1) /\ IsS(s2, 2) /\ IsS(s3, 3) THEN T("S211", "n") ELSE Bad
FSm21(s1, sm1, par) == IF IsS(s1, 1) /\ IsSm(sm1, 1, par) THEN TP("Sm21", "n", par) ELSE Bad
FSm211(s1, s2, sm1, par) ==
  IF IsS(s1, 1) /\ IsS(s2, 2) /\ IsSm(sm1, 1, par) THEN TP("Sm211", "n", par) ELSE Bad
FS2m1(s2, sm1, sm2, par) ==
  IF IsS(s2, 2) /\ IsSm(sm1, 1, par) /\ IsSm(sm2, 2, par) THEN TP("S2m1", "n", par) ELSE Bad
(* w3.Sm2m1 takes no flag: its parity is the one baked into Sm2 *)
FSm2m1(s1, s2, sm2) ==
  IF IsS(s1, 1) /\ IsS(s2, 2) /\ sm2.f = "Sm2" /\ sm2.a = "n" THEN TP("Sm2m1", "n", sm2.p) ELSE Bad
FSm31(s1, sm1, sm2, par) ==
  IF IsS(s1, 1) /\ IsSm(sm1, 1, par) /\ IsSm(sm2, 2, par) THEN TP("Sm31", "n", par) ELSE Bad
FSm22(s1, s2, sm2, sm31, par) ==
  IF IsS(s1, 1) /\ IsS(s2, 2) /\ IsSm(sm2, 2, par) /\ sm31 = TP("Sm31", "n", par)
  THEN TP("Sm22", "n", par) ELSE Bad

(* ---------------------------------------------------------------------------*)
(* transcription of cache.py                                                   *)
(* ---------------------------------------------------------------------------*)
Empty == [k \in Keys |-> NaN]
Upd(c, key, val) == IF c[key] = NaN THEN [c EXCEPT ![key] = val] ELSE c     \* update()
UpdSm(w, c, par) ==                                    \* update_Sm1 / update_Sm2
  IF c[SmName(w)] # NaN THEN c
  ELSE LET c1 == Upd(c, SName(w), Sw(w, "n"))
           c2 == Upd(c1, SName(w) \o "mh", Sw(w, "mh"))
           c3 == Upd(c2, SName(w) \o "h", Sw(w, "h"))
       IN [c3 EXCEPT ![SmName(w)] = Smw(w, c3[SName(w)], c3[SName(w) \o "mh"], c3[SName(w) \o "h"], par)]

(* the branch of `get` for a key whose slot is NaN: <<cache before the final store, s>> *)
Branch(key, c, par) ==
  CASE key \in {"S1", "S2", "S3", "S4", "S5"} -> <<c, T(key, "n")>>
    [] key \in {"S1h", "S2h", "S3h", "S1mh", "S2mh", "S3mh"} -> <<c, T(CanonFn(key), CanonArg(key))>>
    [] key = "S1ph" ->
         LET c1 == Upd(c, "S1mh",
                       IF Mutation = "S1ph-from-S1h" THEN Sw(1, "h") ELSE Sw(1, "mh"))
         IN <<c1, Rec(c1["S1mh"], "mh", 1, 1)>>
    [] key = "S2ph" -> LET c1 == Upd(c, "S2mh", Sw(2, "mh")) IN <<c1, Rec(c1["S2mh"], "mh", 1, 2)>>
    [] key = "S3ph" -> LET c1 == Upd(c, "S3mh", Sw(3, "mh")) IN <<c1, Rec(c1["S3mh"], "mh", 1, 3)>>
    [] key = "Sm1" -> LET c1 == UpdSm(1, c, par) IN <<c1, c1["Sm1"]>>
    [] key = "Sm2" -> LET c1 == UpdSm(2, c, par) IN <<c1, c1["Sm2"]>>
    [] key = "S1p2" -> LET c1 == Upd(c, "S1", Sw(1, "n")) IN <<c1, Rec(c1["S1"], "n", 2, 1)>>
    [] key = "Sm3" ->
         LET c1 == Upd(c, "S3", Sw(3, "n"))
             c2 == Upd(c1, "S3mh", Sw(3, "mh"))
             c3 == Upd(c2, "S3h", Sw(3, "h"))
         IN <<c3, Smw(3, c3["S3"], c3["S3mh"], c3["S3h"], par)>>
    [] key = "Sm4" -> LET c1 == Upd(c, "S4", Sw(4, "n"))
                      IN <<c1, Smw(4, c1["S4"], Sw(4, "mh"), Sw(4, "h"), par)>>
    [] key = "Sm5" -> LET c1 == Upd(c, "S5", Sw(5, "n"))
                      IN <<c1, Smw(5, c1["S5"], Sw(5, "mh"), Sw(5, "h"), par)>>
    [] key = "g3" -> LET c1 == Upd(c, "S1", Sw(1, "n")) IN <<c1, G3("n", c1["S1"])>>
    [] key = "g3p2" ->
         LET c1 == Upd(c, "S1p2", IF Mutation = "g3p2-from-S1" THEN Sw(1, "n") ELSE Sw(1, "p2"))
         IN <<c1, G3("p2", c1["S1p2"])>>
    [] OTHER ->
         LET c1 == Upd(c, "S1", Sw(1, "n"))
             c2 == Upd(c1, "S2", Sw(2, "n"))
         IN CASE key = "S21" -> <<c2, FS21(c2["S1"], c2["S2"])>>
              [] key = "S31" ->
                   LET c3 == Upd(c2, "S3", Sw(3, "n"))
                       c4 == Upd(c3, "S4", Sw(4, "n"))
                   IN <<c4, FS31(c4["S1"], c4["S2"], c4["S3"], c4["S4"])>>
              [] key = "S211" ->
                   LET c3 == Upd(c2, "S3", Sw(3, "n"))
                   IN <<c3, FS211(c3["S1"], c3["S2"], c3["S3"])>>
              [] OTHER ->
                   LET c3 == UpdSm(1, c2, par)
                   IN CASE key = "Sm21" -> <<c3, FSm21(c3["S1"], c3["Sm1"], par)>>
                        [] key = "Sm211" -> <<c3, FSm211(c3["S1"], c3["S2"], c3["Sm1"], par)>>
                        [] OTHER ->
                             LET c4 == UpdSm(2, c3, par)
                             IN CASE key = "S2m1" -> <<c4, FS2m1(c4["S2"], c4["Sm1"], c4["Sm2"], par)>>
                                  [] key = "Sm2m1" -> <<c4, FSm2m1(c4["S1"], c4["S2"], c4["Sm2"])>>
                                  [] key = "Sm31" -> <<c4, FSm31(c4["S1"], c4["Sm1"], c4["Sm2"], par)>>
                                  [] key = "Sm22" ->
                                       LET c5 == IF c4["Sm31"] = NaN /\ Mutation # "Sm22-skips-Sm31"
                                                 THEN [c4 EXCEPT !["Sm31"] =
                                                         FSm31(c4["S1"], c4["Sm1"], c4["Sm2"], par)]
                                                 ELSE c4
                                       IN <<c5, FSm22(c5["S1"], c5["S2"], c5["Sm2"], c5["Sm31"], par)>>
                                  [] OTHER -> <<c4, NaN>>   \* unknown key: stores NaN

(* get(key, cache, n, is_singlet) -> <<cache', reply>> *)
Get(key, c, par) ==
  IF c[key] # NaN THEN <<c, c[key]>>
  ELSE LET b == Branch(key, c, par) IN <<[b[1] EXCEPT ![key] = b[2]], b[2]>>

Filled(c) == {k \in Keys : c[k] # NaN}

(* ---------------------------------------------------------------------------*)
(* state machine: sequences of look-ups                                        *)
(* ---------------------------------------------------------------------------*)
VARIABLES slots, par, reply, lastkey, steps
vars == <<slots, par, reply, lastkey, steps>>

Init == /\ slots = Empty
        /\ par \in Parities
        /\ reply = NaN
        /\ lastkey = "-"
        /\ steps = 0
Lookup(k) ==
  /\ par' \in (IF MixedParity THEN Parities ELSE {par})
  /\ LET g == Get(k, slots, par') IN slots' = g[1] /\ reply' = g[2]
  /\ lastkey' = k
  /\ steps' = steps + 1

C24_SlotsCanon == \A k \in Keys : slots[k] # NaN => slots[k] = Canon(k, par)
C24_ReplyCanon == lastkey # "-" => reply = Canon(lastkey, par)
C24_Cache == C24_SlotsCanon /\ C24_ReplyCanon
(* a look-up never empties or overwrites a filled slot, and fills its own *)
C24_Monotone == [][\A k \in Keys : slots[k] # NaN => slots'[k] = slots[k]]_vars
C24_OwnSlot == lastkey # "-" => slots[lastkey] # NaN
=============================================================================
