------------------------------ MODULE InterpMC ------------------------------
(* B1 for C34 (exact, linear mode): for every family <<step, maxn, degrees>> every *)
(* grid of 2..maxn points drawn from the dyadic pool {step/S, 2 step/S, ..., 1} x  *)
(* (and the point 0) x every degree of the family (InitGrids: seeds (two smallest points, degree) fan  *)
(* out to all grids in Next so that the workers share the evaluation); and        *)
(* (InitRaw) every raw point list of 1-4 points from {1/4..1} (unsorted, repeated *)
(* points, too few points) x degree 0..3 for the rejection clause.                *)
EXTENDS Interp
CONSTANTS S,          \* common denominator of the pool
          Families    \* set of <<step, maxn, degrees>>: grids of 2..maxn points from the
                      \* pool {step/S, 2 step/S, .., 1} x every degree of the set
VARIABLES phase, raw, deg, fam

(* family sets substituted for Families in the configurations                     *)
FamQuick == {<<2, 4, {1, 2, 3}>>, <<2, 5, {4}>>, <<1, 3, {1, 2}>>}
FamFull == {<<2, 6, {4}>>, <<1, 6, {1, 2, 3}>>}
FamGuard == {<<4, 4, {1, 2, 3}>>}
vars == <<phase, raw, deg, fam>>

Asc(s) == Eager([k \in 1..Cardinality(s) |->
             CHOOSE e \in s : Cardinality({x \in s : x < e}) = k - 1])
Pool(step) == {k \in 0..S : k % step = 0}   \* 0 included: a linear grid may start at x = 0
InitGrids ==
  /\ phase = "seed"
  /\ fam \in Families
  /\ deg \in fam[3]
  /\ \E a, b \in Pool(fam[1]) : a < b /\ raw = <<a, b>>
NextGrids ==
  /\ phase = "seed"
  /\ phase' = "grid"
  /\ deg' = deg /\ fam' = fam
  /\ \E s \in SUBSET {k \in Pool(fam[1]) : k > raw[2]} :
        LET full == {raw[1], raw[2]} \cup s
            a == Asc(full)
        IN /\ Cardinality(full) <= fam[2]
           /\ Cardinality(full) > deg
           /\ raw' = [k \in 1..Cardinality(full) |-> RFrac(a[k], S)]
InitRaw ==
  /\ phase = "rawseed"
  /\ fam = <<0, 0, {}>>
  /\ deg \in 0..3
  /\ raw \in [1..1 -> 1..4]
NextRaw ==
  /\ phase = "rawseed"
  /\ phase' = "grid"
  /\ deg' = deg /\ fam' = fam
  /\ \E tail \in UNION {[1..k -> 1..4] : k \in 0..3} :
        raw' = [k \in 1..(1 + Len(tail)) |-> RFrac(IF k = 1 THEN raw[1] ELSE tail[k - 1], 4)]

InitAll == InitGrids \/ InitRaw
Next == NextGrids \/ NextRaw

Mid(gg) == LET pp == EvalSet(gg) IN Eager([e \in 1..(Len(gg) - 1) |-> pp[2 * e]])
Live == phase = "grid" /\ Accepts(raw, deg)

InvC34 ==
  Live =>
    LET g == SortGrid(raw)
        A == AllAreas(g, deg)
        pts == EvalSet(g)
        mid == Mid(g)
        head == Eager([e \in 1..Len(g) |-> pts[e]])    \* same length as the grid, not the grid
    IN /\ \A j \in 1..Len(g) :
            /\ Len(A[j]) >= 1
            /\ \A p \in 1..Len(A[j]) :
                  C34_AreaLagrange(g, j - 1, A[j][p]) /\ C34_BlockCoversArea(g, A[j][p])
       /\ C34_All(g, deg, pts, EvalTableA(A, pts))
       /\ C34_Reinterp(g, deg, g, GetInterpolationA(A, g, g))
       /\ C34_Reinterp(g, deg, head, GetInterpolationA(A, g, head))
       /\ C34_Reinterp(g, deg, mid, GetInterpolationA(A, g, mid))
InvReject == phase = "grid" => C34_Rejection(raw, deg, ~Accepts(raw, deg))
=============================================================================
