------------------------------ MODULE InterpMC ------------------------------
(* B1 for C34 (exact, linear mode): every grid of MinN..MaxN points drawn from   *)
(* the dyadic set {Step/S, 2 Step/S, ..., 1} x every degree in Degrees           *)
(* (InitGrids: seeds (two smallest points, degree) fan out to all grids in Next  *)
(* so that the 16 workers share the evaluation); and (InitRaw) every short raw   *)
(* point list (unsorted, repeated points, too few points) x degree 0..3 for the  *)
(* rejection clause.                                                             *)
EXTENDS Interp
CONSTANTS S, Step, MinN, MaxN, Degrees
VARIABLES phase, raw, deg
vars == <<phase, raw, deg>>

Asc(s) == Eager([k \in 1..Cardinality(s) |->
             CHOOSE e \in s : Cardinality({x \in s : x < e}) = k - 1])
Pool == {k \in 1..S : k % Step = 0}
InitGrids ==
  /\ phase = "seed"
  /\ deg \in Degrees
  /\ \E a, b \in Pool : a < b /\ raw = <<a, b>>
Next ==
  /\ phase = "seed"
  /\ phase' = "grid"
  /\ deg' = deg
  /\ \E s \in SUBSET {k \in Pool : k > raw[2]} :
        LET full == {raw[1], raw[2]} \cup s
            a == Asc(full)
        IN /\ Cardinality(full) >= MinN /\ Cardinality(full) <= MaxN
           /\ Cardinality(full) > deg
           /\ raw' = [k \in 1..Cardinality(full) |-> RFrac(a[k], S)]
InitRaw ==
  /\ phase = "grid"
  /\ deg \in 0..3
  /\ raw \in UNION {[1..k -> {RFrac(q, 4) : q \in 1..4}] : k \in 1..4}

Mid(gg) == LET pp == EvalSet(gg) IN Eager([e \in 1..(Len(gg) - 1) |-> pp[2 * e]])
Live == phase = "grid" /\ Accepts(raw, deg)

InvBasis ==
  Live =>
    LET g == SortGrid(raw)
        pts == EvalSet(g)
        tab == EvalTable(g, deg, pts)
    IN C34_All(g, deg, pts, tab)
InvAreas ==
  Live =>
    LET g == SortGrid(raw) IN
    \A j \in 0..(Len(g) - 1) :
       LET as == Areas(g, deg, j) IN
       /\ Len(as) >= 1
       /\ \A p \in 1..Len(as) : C34_AreaLagrange(g, j, as[p]) /\ C34_BlockCoversArea(g, as[p])
InvReinterp ==
  Live =>
    LET g == SortGrid(raw)
        pts == EvalSet(g)
        mid == Mid(g)
    IN /\ C34_Reinterp(g, deg, g, GetInterpolation(g, deg, g))
       /\ C34_Reinterp(g, deg, pts, GetInterpolation(g, deg, pts))
       /\ C34_Reinterp(g, deg, mid, GetInterpolation(g, deg, mid))
InvReject == phase = "grid" => C34_Rejection(raw, deg, ~Accepts(raw, deg))
=============================================================================
