------------------------------ MODULE InterpMC ------------------------------
(* B1 for C34 (exact, linear mode): every grid of MinN..MaxN points drawn from   *)
(* the dyadic set {Step/S, 2 Step/S, ..., 1} x every degree in Degrees           *)
(* (InitGrids: seeds (two smallest points, degree) fan out to all grids in Next  *)
(* so that the 16 workers share the evaluation); and (InitRaw) every short raw   *)
(* point list (unsorted, repeated points, too few points) x degree 0..3 for the  *)
(* rejection clause.                                                             *)
EXTENDS Interp
CONSTANTS S, Step, MinN, MaxN, Degrees
VARIABLES phase, raw, deg
vars == <<phase, raw, deg>>

Asc(s) == Eager([k \in 1..Cardinality(s) |->
             CHOOSE e \in s : Cardinality({x \in s : x < e}) = k - 1])
Pool == {k \in 1..S : k % Step = 0}
InitGrids ==
  /\ phase = "seed"
  /\ deg \in Degrees
  /\ \E a, b \in Pool : a < b /\ raw = <<a, b>>
NextGrids ==
  /\ phase = "seed"
  /\ phase' = "grid"
  /\ deg' = deg
  /\ \E s \in SUBSET {k \in Pool : k > raw[2]} :
        LET full == {raw[1], raw[2]} \cup s
            a == Asc(full)
        IN /\ Cardinality(full) >= MinN /\ Cardinality(full) <= MaxN
           /\ Cardinality(full) > deg
           /\ raw' = [k \in 1..Cardinality(full) |-> RFrac(a[k], S)]
InitRaw ==
  /\ phase = "rawseed"
  /\ deg \in 0..3
  /\ raw \in [1..1 -> 1..4]
NextRaw ==
  /\ phase = "rawseed"
  /\ phase' = "grid"
  /\ deg' = deg
  /\ \E tail \in UNION {[1..k -> 1..4] : k \in 0..3} :
        raw' = [k \in 1..(1 + Len(tail)) |-> RFrac(IF k = 1 THEN raw[1] ELSE tail[k - 1], 4)]

Next == NextGrids \/ NextRaw

Mid(gg) == LET pp == EvalSet(gg) IN Eager([e \in 1..(Len(gg) - 1) |-> pp[2 * e]])
Live == phase = "grid" /\ Accepts(raw, deg)

InvC34 ==
  Live =>
    LET g == SortGrid(raw)
        A == AllAreas(g, deg)
        pts == EvalSet(g)
        mid == Mid(g)
        head == Eager([e \in 1..Len(g) |-> pts[e]])    \* same length as the grid, not the grid
    IN /\ \A j \in 1..Len(g) :
            /\ Len(A[j]) >= 1
            /\ \A p \in 1..Len(A[j]) :
                  C34_AreaLagrange(g, j - 1, A[j][p]) /\ C34_BlockCoversArea(g, A[j][p])
       /\ C34_All(g, deg, pts, EvalTableA(A, pts))
       /\ C34_Reinterp(g, deg, g, GetInterpolationA(A, g, g))
       /\ C34_Reinterp(g, deg, head, GetInterpolationA(A, g, head))
       /\ C34_Reinterp(g, deg, mid, GetInterpolationA(A, g, mid))
InvReject == phase = "grid" => C34_Rejection(raw, deg, ~Accepts(raw, deg))
=============================================================================
