CONSTANTS
  MixedParity = FALSE
  Mutation = "g3p2-from-S1"
  MaxSteps = 3
INIT Init
NEXT Next
INVARIANT C24_Cache
CHECK_DEADLOCK FALSE
