CONSTANTS
  INF = 99
  CliffRule = "intermediate-only"
INIT Init
NEXT Next
INVARIANT Inv
POSTCONDITION Post
CHECK_DEADLOCK FALSE
