---------------------------- MODULE ProductTrace ----------------------------
(* One record per real call of ekos_product on synthetic EKOs:                  *)
(*  ini, fin : sequences of points [k, val, err, hasErr]; fin.init names the      *)
(*  point of ini it starts from: match in {"one", "none", "many"} as set up by     *)
(*  the harness (scales within / outside the tolerance);                           *)
(*  mode "inplace" | "path"; out: exc, result points, iniUntouched (bytes of the    *)
(*  initial archive unchanged when a path is given), restOk (everything outside     *)
(*  the 2 x 2 block is the identity / zero).                                        *)
EXTENDS Product, Json, IOUtils, TLCExt
TLog == JsonDeserialize(IOEnv.TRACE_FILE)
VARIABLE i
Init == i = 1
Next == i <= Len(TLog) /\ i' = i + 1

Find(pts, k) == CHOOSE j \in 1..Len(pts) : pts[j].k = k
Has(pts, k) == \E j \in 1..Len(pts) : pts[j].k = k
Keys(pts) == {pts[j].k : j \in 1..Len(pts)}

PointOk(r, q) ==   \* q: a point of the result
  IF Has(r.ini, q.k)
  THEN LET p == r.ini[Find(r.ini, q.k)] IN     \* already present: kept as it is
       Mat(q.val) = Mat(p.val) /\ q.hasErr = p.hasErr /\ (p.hasErr => Mat(q.err) = Mat(p.err))
  ELSE LET f == r.fin[Find(r.fin, q.k)]
           e == r.ini[Find(r.ini, r.matchKey)] IN
       /\ Mat(q.val) = ProductValue(Mat(f.val), Mat(e.val))
       /\ q.hasErr = (f.hasErr /\ e.hasErr)
       /\ (q.hasErr => Mat(q.err) = ProductError(Mat(f.val), Mat(f.err), Mat(e.val), Mat(e.err)))

Verdict(r) ==
  IF r.match # "one"
  THEN IF r.exc = "ValueError" THEN "ok" ELSE "C44:unmatched-initial-point-not-refused:" \o r.match
  ELSE IF r.exc # "" THEN "C44:product-raised:" \o r.exc
  ELSE IF Keys(r.out) # Keys(r.ini) \cup Keys(r.fin) THEN "C44:result-points-differ"
  ELSE IF \E j \in 1..Len(r.out) : ~Has(r.ini, r.out[j].k) /\ Mat(r.out[j].val) # ProductValue(Mat(r.fin[Find(r.fin, r.out[j].k)].val), Mat(r.ini[Find(r.ini, r.matchKey)].val))
       THEN "C44:operator-is-not-later-times-earlier"
  ELSE IF \E j \in 1..Len(r.out) : ~PointOk(r, r.out[j]) THEN "C44:error-propagation-rule"
  ELSE IF r.mode = "inplace" /\ Keys(r.outLive) # Keys(r.out) THEN "C44:live-object-points-differ-from-stored"
  ELSE IF \E j \in 1..Len(r.outLive) : ~PointOk(r, r.outLive[j]) THEN "C44:live-object-answers-differ-from-product"
  ELSE IF ~r.restOk THEN "C44:outside-block-modified"
  ELSE IF r.mode = "path" /\ ~r.iniUntouched THEN "C44:initial-archive-modified-with-explicit-path"
  ELSE "ok"
Inv == i <= Len(TLog) =>
         LET v == Verdict(TLog[i]) IN v = "ok" \/ PrintT(<<"BAD", i, v>>)
Post == TLCGet("stats").diameter = Len(TLog) + 1
=============================================================================
