CONSTANTS UpperClosed = TRUE FirstClosed = TRUE ContractFaithful = TRUE InputInverse = TRUE N = 2
INIT Init
NEXT Next
INVARIANT InvContract
INVARIANT InvCommute
INVARIANT InvSameGrid
INVARIANT InvBases
INVARIANT InvReshape
CHECK_DEADLOCK FALSE
