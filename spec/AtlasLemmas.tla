---------------------------- MODULE AtlasLemmas ----------------------------
(* Lemmas about paths used by Runner (shared prefixes) and by the structural   *)
(* half of C06 (splitting a path at an intermediate point keeps the joints).    *)
EXTENDS Atlas, TLC
VARIABLES ms, o, t, m
vars == <<ms, o, t, m>>
Finite == 1..(INF - 1)
Pts == Finite \X NfRange
Init == /\ ms \in [1..3 -> 0..INF]
        /\ o \in Pts /\ t \in Pts /\ m \in Pts
Next == UNCHANGED vars
InvConcat == PathConcat(ms, o, m, t)
InvShared == SharedPrefix(ms, o, t, m)
=============================================================================
