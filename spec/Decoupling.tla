----------------------------- MODULE Decoupling -----------------------------
(* C16 (exact part): the decoupling relation of the strong coupling at a heavy   *)
(* quark threshold,                                                              *)
(*   a^(nl+1)(mu^2) = F(a, L),  a = a^(nl)(mu^2),  L = ln(mu^2 / m^2),            *)
(*   F = a + sum_{n=1..3} a^(n+1) sum_{l=0..n} c[n][l] L^l,                        *)
(* in the normalisation a = alpha_s/(4 pi) of eko (Vogt 2004, eq. 2.43).           *)
(*                                                                               *)
(* (i)  Constants (L = 0): published values.  POLE (on-shell mass, Chetyrkin-      *)
(*      Kniehl-Steinhauser 1997 / Vogt 2004): c20 = 14/3, c30 = 340.729 - 16.7981  *)
(*      nl.  MSBAR (m = m(mu), CKS 1997 eq. (22) / Schroder-Steinhauser 2005       *)
(*      eq. (3.1), times 4^n): c20 = -22/9, c30 = -62.2116 + 5.4177 nl.             *)
(*      The decimals are cross-checked against the exact forms.                    *)
(* (ii) Logarithms: DERIVED from renormalisation-group invariance.  With             *)
(*      da/dt = -beta_nl(a), da'/dt = -beta_(nl+1)(a'), t = ln mu^2, and             *)
(*      dL/dt = 1 (POLE: fixed mass)  or  1 + 2 gamma_m^(nl+1)(a') (MSBAR: the mass   *)
(*      runs, d ln m / dt = -gamma_m):                                               *)
(*         dF/dL * dL/dt = dF/da * beta_nl(a) - beta_(nl+1)(F).                      *)
(*      Solved by Picard iteration in L from F(a, 0) = a + c20 a^3 + c30 a^4.        *)
(* (iii) continuity: no O(a^2) constant, hence unit ratio at L = 0 for LO and NLO.   *)
(* (iv) the downward relation is the composition inverse (MatPoly, C22 law).         *)
EXTENDS ScaleVar
CONSTANT DVariant
Co == INSTANCE Coeffs WITH Mutant <- "none"

Schemes == {"POLE", "MSBAR"}
BetaOfNf(nf) == << Co!EvalPoly(Co!Beta0, nf)[1], Co!EvalPoly(Co!Beta1, nf)[1], Co!EvalPoly(Co!Beta2, nf)[1] >>
GammaOfNf(nf) == << Co!EvalPoly(Co!Gamma0, nf)[1], Co!EvalPoly(Co!Gamma1, nf)[1], Co!EvalPoly(Co!Gamma2, nf)[1] >>

(* published constants, as the decimals printed in the literature                    *)
C20(scheme) == IF scheme = "POLE" THEN QF(14, 3) ELSE QF(-22, 9)
C30(scheme, nl) ==
  IF scheme = "POLE" THEN QSub(QF(340729, 1000), QMul(QF(167981, 10000), QI(nl)))
  ELSE QAdd(QF(-622116, 10000), QMul(QF(54177, 10000), QI(nl)))

(* exact forms of the three-loop constants; zeta2, zeta2*ln2, zeta3 by convergents    *)
(* (|error| < 2e-9).  Entry: <<rational coefficient, approximated irrational>>          *)
Zeta2A == <<20083, 12209>>
Zeta2Ln2A == <<9679, 8489>>
Zeta3A == <<19519, 16238>>
ExactC30(scheme) ==   \* << terms of the constant, terms of the nl coefficient >>
  IF scheme = "POLE"
  THEN << << <<QF(58933, 1944), Q1>>, <<QF(128, 3), Zeta2A>>, <<QF(128, 9), Zeta2Ln2A>>, <<QF(80507, 432), Zeta3A>> >>,
          << <<QF(-2479, 486), Q1>>, <<QF(-64, 9), Zeta2A>> >> >>
  ELSE << << <<QF(-564731, 1944), Q1>>, <<QF(82043, 432), Zeta3A>> >>,
          << <<QF(2633, 486), Q1>> >> >>
RECURSIVE TermsScaled(_, _)
TermsScaled(ts, p) == IF ts = <<>> THEN 0 ELSE QFloorScaled(QMul(Head(ts)[1], Head(ts)[2]), p) + TermsScaled(Tail(ts), p)
(* printed decimals <<P, p>> = P * 10^-p : constant and nl coefficient                    *)
PrintedC30(scheme) == IF scheme = "POLE" THEN << <<340729, 3>>, <<-167981, 4>> >> ELSE << <<-622116, 4>>, <<54177, 4>> >>
DecimalsAgree(scheme) ==
  \A k \in 1..2 :
    LET e == PrintedC30(scheme)[k]
        d == TermsScaled(ExactC30(scheme)[k], e[2]) - e[1]
    IN  QAbs(d) * 2 <= 1 + 10
(* the printed decimals are the ones used in C30                                           *)
PrintedIsC30(scheme) ==
  \A nl \in 3..5 :
    C30(scheme, nl) = QAdd(QF(PrintedC30(scheme)[1][1], 10 ^ PrintedC30(scheme)[1][2]),
                           QMul(QF(PrintedC30(scheme)[2][1], 10 ^ PrintedC30(scheme)[2][2]), QI(nl)))

(* ---- RG derivation ------------------------------------------------------------------- *)
N4 == 4
F0(scheme, nl) ==     \* F at L = 0
  PAdd(PMonoA(N4, 1), PAdd(PScale(C20(scheme), PMonoA(N4, 3)), PScale(C30(scheme, nl), PMonoA(N4, 4))))
(* beta as a polynomial in a (L-degree 0): sum_k bs[k+1] a^(k+2)                            *)
BetaPolyA(bs) ==
  PAdd(PScale(bs[1], PMonoA(N4, 2)), PAdd(PScale(bs[2], PMonoA(N4, 3)), PScale(bs[3], PMonoA(N4, 4))))
(* gamma_m(F) = sum_k gs[k+1] F^(k+1)                                                        *)
RECURSIVE GammaMFrom(_, _, _, _)
GammaMFrom(gs_0, F_0, Fpow_0, k) == Let3(gs_0, F_0, Fpow_0, LAMBDA gs, F, Fpow :
  IF k + 1 > Len(gs) THEN PZero(N4) ELSE PAdd(PScale(gs[k + 1], Fpow), GammaMFrom(gs, F, PMul(Fpow, F), k + 1)))
(* 1/(1 + u) for u = O(a), through a^4                                                        *)
InvOnePlus(u_0) == Let1(u_0, LAMBDA u :
  Let1(PMul(u, u), LAMBDA u2 :
    PAdd(POne(N4), PAdd(PNeg(u), PAdd(u2, PAdd(PNeg(PMul(u2, u)), PMul(u2, u2)))))))
(* right-hand side of dF/dL                                                                  *)
RhsL(scheme, nl, F_0) == Let1(F_0, LAMBDA F :
  Let1(PSub(PMul(PDiffA(F), BetaPolyA(BetaOfNf(IF DVariant = "same_beta" THEN nl + 1 ELSE nl))),
            BetaOf(BetaOfNf(nl + 1), F)), LAMBDA num :
    IF scheme = "POLE" \/ DVariant = "fixed_mass" THEN num
    ELSE PMul(num, InvOnePlus(PScale(QI(2), GammaMFrom(GammaOfNf(IF DVariant = "gamma_nl" THEN nl ELSE nl + 1), F, F, 0))))))
RECURSIVE FIter(_, _, _, _)
FIter(scheme, nl, F_0, m) == Let1(F_0, LAMBDA F :
  IF m = 0 THEN F ELSE FIter(scheme, nl, PAdd(F0(scheme, nl), PIntL(RhsL(scheme, nl, F))), m - 1))
(* the decoupling relation required by RG invariance, through a^4                              *)
DerivedUp(scheme, nl) == FIter(scheme, nl, F0(scheme, nl), N4)
DerivedCell(F, n, l) == F[n + 2][l + 1]

(* ---- published logarithmic coefficients (second, independent statement) ------------------ *)
PublishedLog(scheme, nl, n, l) ==
  LET q(a, b) == QF(a, b)
      nlq == QI(nl)
  IN  CASE n = 1 /\ l = 1 -> q(2, 3)
        [] n = 2 /\ l = 2 -> q(4, 9)
        [] n = 3 /\ l = 3 -> q(8, 27)
        [] n = 2 /\ l = 1 -> IF scheme = "POLE" THEN q(38, 3) ELSE q(22, 3)
        [] n = 3 /\ l = 1 -> IF scheme = "POLE" THEN QSub(q(8941, 27), QMul(q(409, 27), nlq))
                                                 ELSE QSub(q(2645, 27), QMul(q(67, 9), nlq))
        [] n = 3 /\ l = 2 -> IF scheme = "POLE" THEN q(511, 9)
                                                 ELSE QAdd(q(167, 9), QMul(q(16, 9), nlq))
LogCells == {<<1, 1>>, <<2, 1>>, <<2, 2>>, <<3, 1>>, <<3, 2>>, <<3, 3>>}

(* ---- the property on an observed table cell ------------------------------------------------ *)
(* required value of c[n][l] (n = 0..3, l = 0..3)                                                *)
Required(scheme, nl, F, n, l) ==
  IF n = 0 \/ l > n THEN Q0 ELSE DerivedCell(F, n, l)
CellName(n, l) == "c" \o ToString(n) \o ToString(l)
=============================================================================
