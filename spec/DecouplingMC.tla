---------------------------- MODULE DecouplingMC ----------------------------
(* B1 for C16: the RG derivation reproduces the logarithmic coefficients         *)
(* published by Vogt 2004 (POLE) and Chetyrkin-Kniehl-Steinhauser 1997 eq. (22)   *)
(* (MSBAR, m(mu)), nl = 3..5; the printed three-loop constants agree with their    *)
(* exact forms; constants of the derived relation are the published ones.          *)
(* DVariant # "rg" alters the RG equation (vacuity guards).                         *)
EXTENDS Decoupling
VARIABLE x
Init == x \in [scheme : Schemes, nl : 3..5]
Next == UNCHANGED x
InvLogs == Let1(DerivedUp(x.scheme, x.nl), LAMBDA F :
             \A p \in LogCells : DerivedCell(F, p[1], p[2]) = PublishedLog(x.scheme, x.nl, p[1], p[2]))
InvConstants == Let1(DerivedUp(x.scheme, x.nl), LAMBDA F :
             /\ DerivedCell(F, 1, 0) = Q0
             /\ DerivedCell(F, 2, 0) = C20(x.scheme)
             /\ DerivedCell(F, 3, 0) = C30(x.scheme, x.nl)
             /\ F[1][1] = Q0 /\ F[2][1] = Q1 /\ F[2][2] = Q0)
InvDecimals == DecimalsAgree(x.scheme) /\ PrintedIsC30(x.scheme)
=============================================================================
