CONSTANTS
  J <- EnvJ
  Switch = "strict-sums"
INIT Init
NEXT Next
INVARIANT Inv
POSTCONDITION Post
CHECK_DEADLOCK FALSE
