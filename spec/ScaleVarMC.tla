----------------------------- MODULE ScaleVarMC -----------------------------
(* B1 for C21: the formulas written in eko.scale_variations (transcribed in     *)
(* ScaleVar) against the renormalisation-group derivation, on instance domains  *)
(* that are complete by degree counting:                                        *)
(*  "reexp": the Picard solution of the RGE reproduces the textbook expansion    *)
(*           a + b0 L a^2 + (b1 L + b0^2 L^2) a^3 + (b2 L + 5/2 b0 b1 L^2 +       *)
(*           b0^3 L^3) a^4;                                                       *)
(*  "expo":  gamma_variation is linear in gamma (unit towers are complete), of     *)
(*           degree <= 3 in b0 and L, <= 1 in b1, b2;                              *)
(*  "expa":  the kernel through a^3 has degree <= 3 in each entry of gamma_0 and   *)
(*           is affine in gamma_1, gamma_2 (weights 1, 2, 3, total <= 3), degree   *)
(*           <= 2 in b0, <= 1 in b1, <= 3 in L.                                    *)
EXTENDS ScaleVar
CONSTANT Variant, Tier
VARIABLE x

B01 == {0, 1}
G4 == -1..2
M2 == {<< <<a, b>>, <<c, d>> >> : a \in B01, b \in B01, c \in B01, d \in B01}
M2wide == {<< <<a, b>>, <<c, d>> >> : a \in G4, b \in G4, c \in G4, d \in G4}
Z2 == << <<0, 0>>, <<0, 0>> >>
Units2 == {Z2, << <<1, 0>>, <<0, 0>> >>, << <<0, 1>>, <<0, 0>> >>, << <<0, 0>>, <<1, 0>> >>, << <<0, 0>>, <<0, 1>> >>}
Mq == {<< <<1, 1>>, <<0, 1>> >>, << <<0, 1>>, <<1, 0>> >>, << <<1, 0>>, <<1, -1>> >>,
       << <<0, 1>>, <<0, 0>> >>, << <<2, -1>>, <<1, 1>> >>, << <<0, 0>>, <<1, 1>> >>}
G0set == IF Tier = "quick" THEN Mq ELSE M2wide

KindsOf == CASE Variant = "b1b0_coeff" -> {"expo"}
             [] Variant \in {"commuted", "b0g0e2"} -> {"expa"}
             [] OTHER -> {"reexp", "expo", "expa"}
Seeds ==
  [kind : {"seed"}, of : {"reexp"}, b0 : 0..3, G0 : {Z2}] \cup
  [kind : {"seed"}, of : {"expo"}, b0 : 0..3, G0 : {Z2}] \cup
  [kind : {"seed"}, of : {"expa"}, b0 : {0}, G0 : G0set]
Init == x \in {s \in Seeds : s.of \in KindsOf}
Next ==
  /\ x.kind = "seed"
  /\ \/ /\ x.of = "reexp"
        /\ x' \in [kind : {"reexp"}, b0 : {x.b0}, b1 : -1..1, b2 : B01]
     \/ /\ x.of = "expo"
        /\ x' \in [kind : {"expo"}, b0 : {x.b0}, b1 : B01, b2 : B01, unit : 0..3]
     \/ /\ x.of = "expa"
        /\ x' \in [kind : {"expa"}, G0 : {x.G0},
                   G1 : (IF Tier = "quick" THEN {Z2, << <<0, 1>>, <<0, 0>> >>, << <<0, 0>>, <<1, 0>> >>} ELSE Units2),
                   G2 : {Z2, << <<0, 1>>, <<0, 0>> >>}, b0 : 0..2, b1 : B01]

Ls == -1..2
Bs == << QI(x.b0), QI(x.b1), IF x.kind = "expa" THEN Q0 ELSE QI(x.b2) >>
UnitTower(k) == [j \in 1..4 |-> IF j = k + 1 THEN S1(Q1) ELSE S1(Q0)]

InvReexp == x.kind = "reexp" => ReexpansionKnown(Bs)
(* the derivation is done once per instance as polynomials in L; the formulas of   *)
(* the implementation are compared at L = -1..2 (degree <= 3 in L)                 *)
InvExpo == x.kind = "expo" =>
  Let1(GammaOfR(UnitTower(x.unit), Bs, 4), LAMBDA G :
    \A l \in Ls : \A n \in 1..4 : \A j \in 1..n :
        MEq(GammaVariationTranscribed(UnitTower(x.unit), Bs, n, QI(l), Variant)[j], BRowEval(G, j, QI(l), 1)))
Gs == << MOfInt(x.G0), MOfInt(x.G1), MOfInt(x.G2) >>
InvExpa == x.kind = "expa" =>
  Let1(PathOrdered(Gs, Bs, 4), LAMBDA K :
    \A l \in Ls : \A n \in 1..4 : \A j \in 1..4 :
        MEq(KernelTranscribed(Gs, Bs, n, QI(l), 4, Variant)[j],
            IF j <= n THEN BRowEval(K, j - 1, QI(l), 1) ELSE MZero(2)))
=============================================================================
