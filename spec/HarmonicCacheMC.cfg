CONSTANTS
  MixedParity = FALSE
  Mutation = "none"
  MaxSteps = 3
INIT Init
NEXT Next
INVARIANT C24_Cache
INVARIANT C24_OwnSlot
PROPERTY C24_Monotone
CHECK_DEADLOCK FALSE
