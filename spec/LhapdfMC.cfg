CONSTANTS
  MaxRank = 3
  SortedAssumed = FALSE
  XFromCard = FALSE
INIT Init
NEXT Next
INVARIANT InvQRange
INVARIANT InvXRange
INVARIANT InvAlphaQs
INVARIANT InvNodes
INVARIANT InvAscending
CHECK_DEADLOCK FALSE
