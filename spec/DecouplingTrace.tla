--------------------------- MODULE DecouplingTrace ---------------------------
(* B3 for C16 (exact part): the tables of eko.couplings.compute_matching_coeffs_up *)
(* and _down, recovered exactly, against the published constants and the RG-derived  *)
(* logarithms.  Record: [scheme, nl, up, down, exact], tables 4 x 4 of pairs.         *)
(* Verdict "C16:<scheme> cells <names>" lists every cell of `up` that differs;         *)
(* "C16:<scheme> inverse ..." when `down` is not the composition inverse of `up`.      *)
EXTENDS Decoupling, Json, IOUtils, TLCExt, FiniteSets
TLog == JsonDeserialize(IOEnv.TRACE_FILE)
VARIABLE i
Init == i = 1
Next == i <= Len(TLog) /\ i' = i + 1

CellSeq == << <<0,0>>, <<0,1>>, <<0,2>>, <<0,3>>, <<1,0>>, <<1,1>>, <<1,2>>, <<1,3>>,
              <<2,0>>, <<2,1>>, <<2,2>>, <<2,3>>, <<3,0>>, <<3,1>>, <<3,2>>, <<3,3>> >>
RECURSIVE BadNames(_, _, _)
BadNames(r, F, k) ==
  IF k > Len(CellSeq) THEN ""
  ELSE LET n == CellSeq[k][1]
           l == CellSeq[k][2]
       IN (IF TableAt(r.up, n, l) = Required(r.scheme, r.nl, F, n, l) THEN "" ELSE " " \o CellName(n, l))
          \o BadNames(r, F, k + 1)
RECURSIVE FirstBadOrder(_, _, _)
FirstBadOrder(up, down, n) ==
  IF n > 3 THEN -1 ELSE IF ~C22_CouplingInverse(up, down, n) THEN n ELSE FirstBadOrder(up, down, n + 1)

Verdict(r) ==
  IF ~r.exact THEN "C16:" \o r.scheme \o " table entries are not published rationals/decimals"
  ELSE Let1(DerivedUp(r.scheme, r.nl), LAMBDA F :
    Let1(BadNames(r, F, 1), LAMBDA names :
      IF names # "" THEN "C16:" \o r.scheme \o " cells" \o names
      ELSE LET o == FirstBadOrder(r.up, r.down, 0) IN
           IF o >= 0 THEN "C16:" \o r.scheme \o " inverse order " \o ToString(o + 1) ELSE "ok"))

Inv == i <= Len(TLog) =>
         LET v == Verdict(TLog[i]) IN v = "ok" \/ PrintT(<<"BAD", i, v>>)
Post == TLCGet("stats").diameter = Len(TLog) + 1
=============================================================================
