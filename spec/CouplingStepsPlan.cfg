CONSTANT INF = 99
INIT Init
NEXT Next
INVARIANT PlanInv
POSTCONDITION Post
CHECK_DEADLOCK FALSE
