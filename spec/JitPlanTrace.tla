----------------------------- MODULE JitPlanTrace -----------------------------
EXTENDS JitPlan, Json, IOUtils, TLCExt
TLog == JsonDeserialize(IOEnv.TRACE_FILE)
VARIABLE i
Init == i = 1
Next == i <= Len(TLog) /\ i' = i + 1
Verdict(r) ==
  IF r.ev = "cell"
  THEN IF r.group \notin Groups THEN "CONF:group-outside-domain"
       ELSE IF r.class \notin Classes THEN "CONF:unknown-class"
       ELSE IF r.class = "py-error" THEN "CONF:interpreted-call-raised"
       ELSE IF r.class = "jit-error" THEN "C48:does-not-compile-or-run-compiled"
       ELSE IF ~C48_Cell(r.class) THEN "C48:compiled-value-differs-from-interpreted"
       ELSE "ok"
  ELSE IF r.ev = "coverage"
  THEN IF {r.groups[j].name : j \in 1..Len(r.groups)} # Groups THEN "COVERAGE:groups"
       ELSE IF \E j \in 1..Len(r.groups) : r.groups[j].planned = 0 \/ r.groups[j].planned # r.groups[j].measured
            THEN "COVERAGE:planned-cells-not-measured"
       ELSE "ok"
  ELSE "CONF:unknown-record"
Inv == i <= Len(TLog) =>
         LET v == Verdict(TLog[i]) IN v = "ok" \/ PrintT(<<"BAD", i, v>>)
Post == TLCGet("stats").diameter = Len(TLog) + 1
=============================================================================
