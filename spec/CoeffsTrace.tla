----------------------------- MODULE CoeffsTrace -----------------------------
(* B3 for C20: coefficients recovered from eko.beta / eko.gamma by exact       *)
(* probing (zeta constants patched to basis vectors, nf = 0..6, rational        *)
(* reconstruction with a residual guard) are compared with the literature      *)
(* table, coefficient by coefficient and value by value.  One record per cell: *)
(*  [kind |-> "coef",  obj, via, k,  b, q, exact]   coefficient of nf^k         *)
(*  [kind |-> "val",   obj, via, nf, b, q, exact]   value at nf                 *)
(*  [kind |-> "ratio", obj, via, nf, b, q, exact]   b_k = beta_k / beta_0       *)
(*  [kind |-> "qed",   obj, via, nf, nl, q, exact]  QED / mixed value           *)
(*  [kind |-> "qedratio", obj, via, nf, nl, q, exact]                           *)
(* q = <<num, den>>; exact = FALSE when the float returned by the code is not   *)
(* within the guard of any small rational (q is then its best approximation).   *)
EXTENDS Coeffs, Json, IOUtils, TLCExt, FiniteSets
TLog == JsonDeserialize(IOEnv.TRACE_FILE)
VARIABLE i
Init == i = 1
Next == i <= Len(TLog) /\ i' = i + 1

Num(n) == CASE n = 0 -> "0" [] n = 1 -> "1" [] n = 2 -> "2" [] n = 3 -> "3"
            [] n = 4 -> "4" [] n = 5 -> "5" [] n = 6 -> "6" [] OTHER -> "?"

IsNormal(q) == q[2] > 0 /\ Gcd(q[1], q[2]) = 1

BetaIndex(obj) == CASE obj = "beta1" -> 1 [] obj = "beta2" -> 2 [] obj = "beta3" -> 3

Expected(r) ==
  CASE r.kind = "coef" -> QcdTable[r.obj][r.k + 1][BasisIdx(r.b)]
    [] r.kind = "val" -> EvalPoly(QcdTable[r.obj], r.nf)[BasisIdx(r.b)]
    [] r.kind = "ratio" ->
         IF r.obj = "beta_qcd21"
         THEN (IF r.b = "const" THEN QDiv(Derived21(r.nf), EvalPoly(Beta0, r.nf)[1]) ELSE Q0)
         ELSE BetaRatio(BetaIndex(r.obj), r.nf)[BasisIdx(r.b)]
    [] r.kind = "qed" -> QedValue(r.obj, r.nf, r.nl)
    [] r.kind = "qedratio" -> QedRatio(r.obj, r.nf, r.nl)

Where(r) ==
  CASE r.kind = "coef" -> r.obj \o " nf^" \o Num(r.k) \o " " \o r.b
    [] r.kind = "val" -> r.obj \o " value nf=" \o Num(r.nf) \o " " \o r.b
    [] r.kind = "ratio" -> r.obj \o "/beta0 nf=" \o Num(r.nf) \o " " \o r.b
    [] r.kind = "qed" -> r.obj \o " nf=" \o Num(r.nf) \o " nl=" \o Num(r.nl)
    [] r.kind = "qedratio" -> r.obj \o "/beta_qed02 nf=" \o Num(r.nf) \o " nl=" \o Num(r.nl)

Kinds == {"coef", "val", "ratio", "qed", "qedratio"}

Verdict(r) ==
  IF r.kind \notin Kinds THEN "FORMAT:kind"
  ELSE IF ~IsNormal(r.q) THEN "FORMAT:rational not normal"
  ELSE IF r.q = Expected(r) /\ r.exact THEN "ok"
  ELSE "C20:" \o Where(r)

(* no silent skipping: every planned cell is present for the direct functions  *)
(* and for the dispatchers                                                      *)
Vias == {"direct", "dispatch"}
Plan ==
  {<<"coef", o, v, k, b>> : o \in QcdObjects, v \in Vias, k \in 0..3, b \in 1..4} \cup
  {<<"val", o, v, n, b>> : o \in QcdObjects, v \in Vias, n \in 0..6, b \in 1..4} \cup
  {<<"ratio", o, v, n, b>> : o \in {"beta1", "beta2", "beta3"}, v \in {"dispatch"}, n \in 0..6, b \in 1..4} \cup
  {<<"ratio", "beta_qcd21", "dispatch", n, 1>> : n \in 0..6} \cup
  {<<"qed", o, v, n, l>> : o \in QedObjects, v \in Vias, n \in 0..6, l \in 0..3} \cup
  {<<"qedratio", o, "dispatch", n, l>> : o \in {"beta_qed03", "beta_qed12"}, n \in 0..6, l \in 2..3}
Key(r) ==
  CASE r.kind = "coef" -> <<"coef", r.obj, r.via, r.k, BasisIdx(r.b)>>
    [] r.kind \in {"val", "ratio"} -> <<r.kind, r.obj, r.via, r.nf, BasisIdx(r.b)>>
    [] r.kind \in {"qed", "qedratio"} -> <<r.kind, r.obj, r.via, r.nf, r.nl>>
    [] OTHER -> <<"?">>
Seen == {Key(TLog[j]) : j \in 1..Len(TLog)}
Missing == Plan \ Seen

Inv == IF i <= Len(TLog)
       THEN LET v == Verdict(TLog[i]) IN v = "ok" \/ PrintT(<<"BAD", i, v, Expected(TLog[i])>>)
       ELSE Missing = {} \/ PrintT(<<"PLAN", Cardinality(Missing), CHOOSE m \in Missing : TRUE>>)
Post == TLCGet("stats").diameter = Len(TLog) + 1
=============================================================================
